/-
  Model/Cmds/Codec.lean — driver requests exercising the number codec (DESIGN.md 3.3):
  `pf64 <hex text>` / `pf32` parse, `df64 <hex bits>` / `df32` display, `i32 <hex text>`, `u8`,
  casts (`castf64i32`, `castf32i32`, `castf64f32`, `castf32f64`, `casti32f32`, `usizef64`), `ceilf64` / `ceilf32`, and the
  arithmetic itself on bit patterns: `fop64|fop32 <add|sub|mul|div|sqrt|abs|neg|cmp|minmax> <a> <b>`.
-/
import RosuModel.Model.Proto
import RosuModel.Model.FloatInst
namespace Rosu

def textOf (hex : String) : Str := utf8Lossy (unhex hex)
def natOfHex (s : String) : Nat := s.toList.foldl (fun acc c => acc * 16 + hexVal c) 0

def dispatchCodec (toks : List String) : Option String :=
  match toks with
  | ["pf64", h] => some (match (Scalar.parse (textOf h) : Option Float) with
      | some x => "ok " ++ hex64 x | none => "err")
  | ["pf32", h] => some (match (Scalar.parse (textOf h) : Option Float32) with
      | some x => "ok " ++ hex32 x | none => "err")
  | ["df64", b] => some (hexStr (Scalar.print (Float.ofBits (UInt64.ofNat (natOfHex b)))))
  | ["df32", b] => some (hexStr (Scalar.print (Float32.ofBits (UInt32.ofNat (natOfHex b)))))
  | ["i32", h] => some (match i32Parse (textOf h) with | some n => s!"ok {n}" | none => "err")
  | ["i32raw", h] => some (match i32FromStr (textOf h) with | some n => s!"ok {n}" | none => "err")
  | ["u8", h] => some (match u8FromStr (textOf h) with | some n => s!"ok {n}" | none => "err")
  | ["castf64i32", b] => some (toString (Scalar.toI32 (Float.ofBits (UInt64.ofNat (natOfHex b)))))
  | ["castf32i32", b] => some (toString (Scalar.toI32 (Float32.ofBits (UInt32.ofNat (natOfHex b)))))
  | ["castf64f32", b] =>
    let y : Float32 := Cvt.down (Float.ofBits (UInt64.ofNat (natOfHex b)))
    some (if y.isNaN then "nan" else hex32 y)
  | ["castf32f64", b] =>
    let y : Float := Cvt.up (Float32.ofBits (UInt32.ofNat (natOfHex b)))
    some (if y.isNaN then "nan" else hex64 y)
  | ["ceilf64", b] =>
    let y : Float := Scalar.ceil (Float.ofBits (UInt64.ofNat (natOfHex b)))
    some (if y.isNaN then "nan" else hex64 y)
  | ["ceilf32", b] =>
    let y : Float32 := Scalar.ceil (Float32.ofBits (UInt32.ofNat (natOfHex b)))
    some (if y.isNaN then "nan" else hex32 y)
  | ["usizef64", b] => some (toString (Scalar.toUsize (Float.ofBits (UInt64.ofNat (natOfHex b)))))
  | ["fop64", op, a, b] =>
    let x := Float.ofBits (UInt64.ofNat (natOfHex a))
    let y := Float.ofBits (UInt64.ofNat (natOfHex b))
    let num (z : Float) : String := if z.isNaN then "nan" else hex64 z
    if op == "add" then some (num (x + y)) else if op == "sub" then some (num (x - y))
    else if op == "mul" then some (num (x * y)) else if op == "div" then some (num (x / y))
    else if op == "sqrt" then some (num (Scalar.sqrt x)) else if op == "abs" then some (num (Scalar.abs x))
    else if op == "neg" then some (num (-x))
    else if op == "cmp" then some (toString (Scalar.lt x y) ++ " " ++ toString (Scalar.le x y) ++ " " ++ toString (Scalar.eq x y)
      ++ " " ++ toString (compare (Scalar.totalKey x) (Scalar.totalKey y) == .lt))
    else if op == "minmax" then some (num (Scalar.min x y) ++ " " ++ num (Scalar.max x y))
    else none
  | ["fop32", op, a, b] =>
    let x := Float32.ofBits (UInt32.ofNat (natOfHex a))
    let y := Float32.ofBits (UInt32.ofNat (natOfHex b))
    let num (z : Float32) : String := if z.isNaN then "nan" else hex32 z
    if op == "add" then some (num (x + y)) else if op == "sub" then some (num (x - y))
    else if op == "mul" then some (num (x * y)) else if op == "div" then some (num (x / y))
    else if op == "sqrt" then some (num (Scalar.sqrt x)) else if op == "abs" then some (num (Scalar.abs x))
    else if op == "neg" then some (num (-x))
    else if op == "cmp" then some (toString (Scalar.lt x y) ++ " " ++ toString (Scalar.le x y) ++ " " ++ toString (Scalar.eq x y)
      ++ " " ++ toString (compare (Scalar.totalKey x) (Scalar.totalKey y) == .lt))
    else if op == "minmax" then some (num (Scalar.min x y) ++ " " ++ num (Scalar.max x y))
    else none
  | ["casti32f32", n] => some (hex32 (Scalar.ofInt (n.toInt?.getD 0) : Float32))
  | _ => none

end Rosu
