/-
  Model/Cmds/HitObj.lean — driver request `ho <mode> <hex line>…`: feeds the lines to
  `parseHitObjectLine` on a fresh state, prints per-line `Ok/Err`, `last_object`, the leftover
  `curve_points` and every pushed object (fields the line alone determines).
-/
import RosuModel.Model.Proto
import RosuModel.Model.FloatInst
import RosuModel.Model.HitObjectLine
import RosuModel.Model.Cmds.Sections
namespace Rosu

def fmtPathType (t : Option PathType) : String :=
  match t with
  | none => "-"
  | some t =>
    match t.kind with
    | .catmull => "C"
    | .linear => "L"
    | .perfectCurve => "P"
    | .bspline => match t.degree with | some d => s!"B{d}" | none => "B"

def fmtCps (cps : List (PathControlPoint Float32)) : String :=
  joinWith ";" (cps.map fun c => s!"{hex32 c.pos.x}:{hex32 c.pos.y}:{fmtPathType c.pathType}")

def fmtSample (s : HitSampleInfo) : String :=
  let name := match s.name with
    | .default .normal => "n" | .default .whistle => "w" | .default .finish => "f" | .default .clap => "c"
    | .file f => "F" ++ hexStr f
  let suffix := match s.suffix with | some x => toString x | none => "-"
  s!"{name}/{s.bank.idx}/{suffix}/{s.volume}/{s.customSampleBank}/{if s.bankSpecified then 1 else 0}/{if s.isLayered then 1 else 0}"

def fmtSamples (ss : List HitSampleInfo) : String := "[" ++ ",".intercalate (ss.map fmtSample) ++ "]"

def b01 (b : Bool) : String := if b then "1" else "0"

def fmtObj (h : HitObject Float Float32) : String :=
  match h.kind with
  | .circle c => s!"C t={hex64 h.startTime} p={hex32 c.pos.x}:{hex32 c.pos.y} nc={b01 c.newCombo} co={c.comboOffset} s={fmtSamples h.samples}"
  | .slider s =>
    let len := match s.path.expectedDist with | some l => hex64 l | none => "-"
    s!"S t={hex64 h.startTime} p={hex32 s.pos.x}:{hex32 s.pos.y} nc={b01 s.newCombo} co={s.comboOffset} rc={s.repeatCount} len={len} m={s.path.mode.idx} cps={fmtCps s.path.controlPoints} ns={"|".intercalate (s.nodeSamples.map fmtSamples)} s={fmtSamples h.samples}"
  | .spinner s => s!"N t={hex64 h.startTime} p={hex32 s.pos.x}:{hex32 s.pos.y} d={hex64 s.duration} nc={b01 s.newCombo} s={fmtSamples h.samples}"
  | .hold s => s!"H t={hex64 h.startTime} x={hex32 s.posX} d={hex64 s.duration} s={fmtSamples h.samples}"

def fmtCore (c : HOCore Float Float32) : String :=
  let last := match c.lastObject with | some k => toString k | none => "-"
  s!"last={last} cp={fmtCps c.curvePoints} n={c.hitObjects.length}" ++ String.join (c.hitObjects.map fun h => " | " ++ fmtObj h)

def dispatchHitObj (toks : List String) : Option String :=
  match toks with
  | "ho" :: mode :: hexes =>
    let ls := hexes.map (fun h => utf8Lossy (unhex h))
    let m := GameMode.ofIdx mode.toNat!
    let (st, fl) := runLines (parseHitObjectLine (F := Float) (P := Float32) m) {} ls
    some s!"ok={fl} {fmtCore st}"
  | _ => none

end Rosu
