/-
  Model/Cmds/Whole.lean — whole-file driver requests: `dec <hex bytes>` (Beatmap dump) and
  `dec9 <hex bytes>` (all nine decoders), in the canonical format of harness/src/dump.rs.
-/
import RosuModel.Model.Cmds.HitObj
import RosuModel.Model.Cmds.Timing
import RosuModel.Model.Cmds.Curve
import RosuModel.Model.Finalize
import RosuModel.Model.Encode
namespace Rosu.WholeCmd
open Rosu

def fx (x : Float) : String := if x.isNaN then "nan" else hex64 x
def fx32 (x : Float32) : String := if x.isNaN then "nan" else hex32 x

def dumpGeneral (g : GeneralState Float Float32) : String :=
  s!"af={hexStr g.audioFile} ali={fx g.audioLeadIn} pt={g.previewTime} dsb={g.defaultSampleBank.idx} dsv={g.defaultSampleVolume} sl={fx32 g.stackLeniency} mode={g.mode.idx} lib={b01 g.letterboxInBreaks} ss={b01 g.specialStyle} ws={b01 g.widescreenStoryboard} ew={b01 g.epilepsyWarning} smpr={b01 g.samplesMatchPlaybackRate} cd={g.countdown.idx} cdo={g.countdownOffset}"

def dumpEditor (e : Editor Float) : String :=
  s!"bm={joinWith "," (e.bookmarks.map toString)} ds={fx e.distanceSpacing} bd={e.beatDivisor} gs={e.gridSize} tz={fx e.timelineZoom}"

def dumpMetadata (m : Metadata) : String :=
  s!"t={hexStr m.title} tu={hexStr m.titleUnicode} a={hexStr m.artist} au={hexStr m.artistUnicode} c={hexStr m.creator} v={hexStr m.version} s={hexStr m.source} tg={hexStr m.tags} id={m.beatmapId} sid={m.beatmapSetId}"

def dumpDifficulty (d : Difficulty Float Float32) : String :=
  s!"hp={fx32 d.hpDrainRate} cs={fx32 d.circleSize} od={fx32 d.overallDifficulty} ar={fx32 d.approachRate} sm={fx d.sliderMultiplier} tr={fx d.sliderTickRate}"

def dumpEvents (e : Events Float) : String :=
  s!"bg={hexStr e.backgroundFile} br={joinWith "," (e.breaks.map fun b => fx b.startTime ++ ":" ++ fx b.endTime)}"

def dumpColors (c : Colors) : String :=
  s!"combo={joinWith "," (c.customComboColors.map fmtColor)} custom={joinWith "," (c.customColors.map fun x => hexStr x.name ++ "=" ++ fmtColor x.color)}"

def dumpControlPoints (cp : ControlPoints Float) : String :=
  let tp := cp.timingPoints.map fun p => s!"{fx p.time}:{fx p.beatLen}:{b01 p.omitFirstBarLine}:{p.timeSignature.numerator}"
  let dp := cp.difficultyPoints.map fun p => s!"{fx p.time}:{fx p.sliderVelocity}:{b01 p.generateTicks}"
  let ep := cp.effectPoints.map fun p => s!"{fx p.time}:{b01 p.kiai}:{fx p.scrollSpeed}"
  let sp := cp.samplePoints.map fun p => s!"{fx p.time}:{p.sampleBank.idx}:{p.sampleVolume}:{p.customSampleBank}"
  s!"tp={joinWith "," tp} dp={joinWith "," dp} ep={joinWith "," ep} sp={joinWith "," sp}"

def cps32 (cps : List (PathControlPoint Float32)) : String :=
  joinWith ";" (cps.map fun c => s!"{fx32 c.pos.x}:{fx32 c.pos.y}:{fmtPathType c.pathType}")

def dumpObj (h : HitObject Float Float32) : String :=
  match h.kind with
  | .circle c => s!"C t={fx h.startTime} p={fx32 c.pos.x}:{fx32 c.pos.y} nc={b01 c.newCombo} co={c.comboOffset} s={fmtSamples h.samples}"
  | .slider s =>
    let len := match s.path.expectedDist with | some l => fx l | none => "-"
    s!"S t={fx h.startTime} p={fx32 s.pos.x}:{fx32 s.pos.y} nc={b01 s.newCombo} co={s.comboOffset} rc={s.repeatCount} len={len} vel={fx s.velocity} cps={cps32 s.path.controlPoints} ns={"|".intercalate (s.nodeSamples.map fmtSamples)} s={fmtSamples h.samples}"
  | .spinner s => s!"N t={fx h.startTime} p={fx32 s.pos.x}:{fx32 s.pos.y} d={fx s.duration} nc={b01 s.newCombo} s={fmtSamples h.samples}"
  | .hold s => s!"H t={fx h.startTime} x={fx32 s.posX} d={fx s.duration} s={fmtSamples h.samples}"

def dumpObjects (hs : List (HitObject Float Float32)) : String :=
  s!"n={hs.length}" ++ String.join (hs.map fun h => " | " ++ dumpObj h)

def dumpBeatmap (m : Beatmap Float Float32) : String :=
  s!"fv={m.formatVersion} G[{dumpGeneral m.general}] E[{dumpEditor m.editor}] M[{dumpMetadata m.metadata}] D[{dumpDifficulty m.difficulty}] V[{dumpEvents m.events}] T[{dumpControlPoints m.controlPoints}] C[{dumpColors m.colors}] H[{dumpObjects m.hitObjects}]"

def errTag : CErr → String
  | .panic => "PANIC model-index-or-arith"
  | .fuel => "fuel-exhausted"

def fmtIo {α : Type} (r : Except IoKind α) (f : α → String) : String :=
  match r with
  | .error k => "err " ++ k.tag
  | .ok v => f v

def decBeatmap (bs : List UInt8) : String :=
  fmtIo (decodeBytes (beatmapDecoder (F := Float) (P := Float32)) bs) fun st =>
    match st.finish with
    | .ok m => "ok " ++ dumpBeatmap m
    | .error e => errTag e

def dec9 (bs : List UInt8) : String :=
  let g := fmtIo (decodeBytes (generalDecoder (F := Float) (P := Float32)) bs) fun st => s!"ok G[{dumpGeneral st}]"
  let e := fmtIo (decodeBytes (editorDecoder (F := Float)) bs) fun st => s!"ok E[{dumpEditor st}]"
  let m := fmtIo (decodeBytes metadataDecoder bs) fun st => s!"ok M[{dumpMetadata st}]"
  let d := fmtIo (decodeBytes (difficultyDecoder (F := Float) (P := Float32)) bs) fun st => s!"ok D[{dumpDifficulty st.difficulty}]"
  let v := fmtIo (decodeBytes (eventsDecoder (F := Float)) bs) fun st => s!"ok V[{dumpEvents st}]"
  let c := fmtIo (decodeBytes colorsDecoder bs) fun st => s!"ok C[{dumpColors st}]"
  let t := fmtIo (decodeBytes (timingPointsDecoder (F := Float) (P := Float32)) bs) fun st =>
    let (gen, cp) := st.finish
    s!"ok G[{dumpGeneral gen}] T[{dumpControlPoints cp}]"
  let h := fmtIo (decodeBytes (hitObjectsDecoder (F := Float) (P := Float32)) bs) fun st =>
    match st.finish with
    | .ok ho => s!"ok G[{dumpGeneral ho.general}] D[{dumpDifficulty ho.difficulty}] V[{dumpEvents ho.events}] T[{dumpControlPoints ho.controlPoints}] H[{dumpObjects ho.hitObjects}]"
    | .error e => errTag e
  " ## ".intercalate [s!"Beatmap={decBeatmap bs}", s!"General={g}", s!"Editor={e}", s!"Metadata={m}", s!"Difficulty={d}",
    s!"Events={v}", s!"Colors={c}", s!"TimingPoints={t}", s!"HitObjects={h}"]

/-- decode, then encode: the text `Beatmap::encode_to_string` returns. -/
def encText (bs : List UInt8) : String :=
  fmtIo (decodeBytes (beatmapDecoder (F := Float) (P := Float32)) bs) fun st =>
    match st.finish with
    | .error e => errTag e
    | .ok m =>
      match Encode.encode m with
      | .ok t => "ok " ++ hexStr t
      | .error e => errTag e

def f64OfHex (s : String) : Float := Float.ofBits (UInt64.ofNat (natOfHex s))
def f32OfHex (s : String) : Float32 := Float32.ofBits (UInt32.ofNat (natOfHex s))
def strOfHex (s : String) : Str := utf8Lossy (unhex s)

def parseColor4 (s : String) : Option Color :=
  match (s.splitOn ".").map String.toNat? with
  | [some r, some g, some b, some a] => some ⟨r, g, b, a⟩
  | _ => none

def parseBreak (p : String) : Option (BreakPeriod Float) :=
  match p.splitOn ":" with
  | [a, b] => some ⟨f64OfHex a, f64OfHex b⟩
  | _ => none

def parseBreaks (value : String) : List (BreakPeriod Float) :=
  if value == "-" then [] else (value.splitOn ",").filterMap parseBreak

def parseColors4 (value : String) : List Color :=
  if value == "-" then [] else (value.splitOn ",").filterMap parseColor4

def parseBookmarks (value : String) : List Int :=
  if value == "-" then [] else (value.splitOn ",").filterMap String.toInt?

/-- one `field=value` edit through the public fields (C03); `none` = unknown field / bad value. -/
def applyEdit (m : Beatmap Float Float32) (field value : String) : Option (Beatmap Float Float32) :=
  let md := m.metadata
  let g := m.general
  let e := m.editor
  let d := m.difficulty
  match field with
  | "title" => some { m with metadata := { md with title := strOfHex value } }
  | "title_unicode" => some { m with metadata := { md with titleUnicode := strOfHex value } }
  | "artist" => some { m with metadata := { md with artist := strOfHex value } }
  | "artist_unicode" => some { m with metadata := { md with artistUnicode := strOfHex value } }
  | "creator" => some { m with metadata := { md with creator := strOfHex value } }
  | "version" => some { m with metadata := { md with version := strOfHex value } }
  | "source" => some { m with metadata := { md with source := strOfHex value } }
  | "tags" => some { m with metadata := { md with tags := strOfHex value } }
  | "audio_file" => some { m with general := { g with audioFile := strOfHex value } }
  | "background_file" => some { m with events := { m.events with backgroundFile := strOfHex value } }
  | "beatmap_id" => value.toInt?.map fun n => { m with metadata := { md with beatmapId := n } }
  | "beatmap_set_id" => value.toInt?.map fun n => { m with metadata := { md with beatmapSetId := n } }
  | "preview_time" => value.toInt?.map fun n => { m with general := { g with previewTime := n } }
  | "countdown_offset" => value.toInt?.map fun n => { m with general := { g with countdownOffset := n } }
  | "beat_divisor" => value.toInt?.map fun n => { m with editor := { e with beatDivisor := n } }
  | "grid_size" => value.toInt?.map fun n => { m with editor := { e with gridSize := n } }
  | "audio_lead_in" => some { m with general := { g with audioLeadIn := f64OfHex value } }
  | "distance_spacing" => some { m with editor := { e with distanceSpacing := f64OfHex value } }
  | "timeline_zoom" => some { m with editor := { e with timelineZoom := f64OfHex value } }
  | "slider_multiplier" => some { m with difficulty := { d with sliderMultiplier := f64OfHex value } }
  | "slider_tick_rate" => some { m with difficulty := { d with sliderTickRate := f64OfHex value } }
  | "stack_leniency" => some { m with general := { g with stackLeniency := f32OfHex value } }
  | "hp_drain_rate" => some { m with difficulty := { d with hpDrainRate := f32OfHex value } }
  | "circle_size" => some { m with difficulty := { d with circleSize := f32OfHex value } }
  | "overall_difficulty" => some { m with difficulty := { d with overallDifficulty := f32OfHex value } }
  | "approach_rate" => some { m with difficulty := { d with approachRate := f32OfHex value } }
  | "letterbox_in_breaks" => some { m with general := { g with letterboxInBreaks := value == "1" } }
  | "widescreen_storyboard" => some { m with general := { g with widescreenStoryboard := value == "1" } }
  | "epilepsy_warning" => some { m with general := { g with epilepsyWarning := value == "1" } }
  | "samples_match_playback_rate" => some { m with general := { g with samplesMatchPlaybackRate := value == "1" } }
  | "special_style" => some { m with general := { g with specialStyle := value == "1" } }
  | "mode" => value.toNat?.map fun n => { m with general := { g with mode := GameMode.ofIdx n } }
  | "countdown" =>
    (match value with
     | "0" => some CountdownType.none | "1" => some CountdownType.normal
     | "2" => some CountdownType.halfSpeed | "3" => some CountdownType.doubleSpeed | _ => Option.none).map
      fun c => { m with general := { g with countdown := c } }
  | "bookmarks" => some { m with editor := { e with bookmarks := parseBookmarks value } }
  | "breaks" => some { m with events := { m.events with breaks := parseBreaks value } }
  | "combo_colors" => some { m with colors := { m.colors with customComboColors := parseColors4 value } }
  | "custom_color" =>
    match value.splitOn "=" with
    | [n, c] => (parseColor4 c).map fun col =>
        { m with colors := { m.colors with customColors := setCustomColor (strOfHex n) col m.colors.customColors } }
    | _ => none
  | _ => none

def applyEdits (m : Beatmap Float Float32) : List String → Option (Beatmap Float Float32)
  | [] => some m
  | e :: rest =>
    match e.splitOn "=" with
    | f :: v :: more => (applyEdit m f ("=".intercalate (v :: more))).bind fun m' => applyEdits m' rest
    | _ => none

/-- C03: decode, edit, encode, decode: `text ## M2`. -/
def editText (bs : List UInt8) (edits : List String) : String :=
  fmtIo (decodeBytes (beatmapDecoder (F := Float) (P := Float32)) bs) fun st =>
    match st.finish with
    | .error e => errTag e
    | .ok m0 =>
      match applyEdits m0 edits with
      | none => "bad-edit"
      | some m =>
        match Encode.encode m with
        | .error e => errTag e
        | .ok t =>
          match decodeBytes (beatmapDecoder (F := Float) (P := Float32)) (utf8Encode t) with
          | .error k => "err2 " ++ k.tag
          | .ok st2 =>
            match st2.finish with
            | .error e => errTag e
            | .ok m2 => "ok " ++ hexStr t ++ " ## " ++ dumpBeatmap m2

/-- decode → encode → decode: `M1 ## text ## M2`. -/
def rtText (bs : List UInt8) : String :=
  fmtIo (decodeBytes (beatmapDecoder (F := Float) (P := Float32)) bs) fun st =>
    match st.finish with
    | .error e => errTag e
    | .ok m1 =>
      match Encode.encode m1 with
      | .error e => errTag e
      | .ok t =>
        match decodeBytes (beatmapDecoder (F := Float) (P := Float32)) (utf8Encode t) with
        | .error k => "err2 " ++ k.tag
        | .ok st2 =>
          match st2.finish with
          | .error e => errTag e
          | .ok m2 => "ok " ++ dumpBeatmap m1 ++ " ## " ++ hexStr t ++ " ## " ++ dumpBeatmap m2

end Rosu.WholeCmd

namespace Rosu
def dispatchWhole (toks : List String) : Option String :=
  match toks with
  | ["dec", hex] => some (WholeCmd.decBeatmap (unhex hex))
  | ["dec9", hex] => some (WholeCmd.dec9 (unhex hex))
  | ["enc", hex] => some (WholeCmd.encText (unhex hex))
  | ["rt", hex] => some (WholeCmd.rtText (unhex hex))
  | "edit" :: hex :: edits => some (WholeCmd.editText (unhex hex) edits)
  | ["decshift", _, a, b] => some (WholeCmd.decBeatmap (unhex a) ++ " ## " ++ WholeCmd.decBeatmap (unhex b))
  | _ => none
end Rosu
