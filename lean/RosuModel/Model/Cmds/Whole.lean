/-
  Model/Cmds/Whole.lean — whole-file driver requests: `dec <hex bytes>` (Beatmap dump) and
  `dec9 <hex bytes>` (all nine decoders), in the canonical format of harness/src/dump.rs.
-/
import RosuModel.Model.Cmds.HitObj
import RosuModel.Model.Cmds.Timing
import RosuModel.Model.Cmds.Curve
import RosuModel.Model.Finalize
import RosuModel.Model.Encode
namespace Rosu.WholeCmd
open Rosu

def fx (x : Float) : String := if x.isNaN then "nan" else hex64 x
def fx32 (x : Float32) : String := if x.isNaN then "nan" else hex32 x

def dumpGeneral (g : GeneralState Float Float32) : String :=
  s!"af={hexStr g.audioFile} ali={fx g.audioLeadIn} pt={g.previewTime} dsb={g.defaultSampleBank.idx} dsv={g.defaultSampleVolume} sl={fx32 g.stackLeniency} mode={g.mode.idx} lib={b01 g.letterboxInBreaks} ss={b01 g.specialStyle} ws={b01 g.widescreenStoryboard} ew={b01 g.epilepsyWarning} smpr={b01 g.samplesMatchPlaybackRate} cd={g.countdown.idx} cdo={g.countdownOffset}"

def dumpEditor (e : Editor Float) : String :=
  s!"bm={joinWith "," (e.bookmarks.map toString)} ds={fx e.distanceSpacing} bd={e.beatDivisor} gs={e.gridSize} tz={fx e.timelineZoom}"

def dumpMetadata (m : Metadata) : String :=
  s!"t={hexStr m.title} tu={hexStr m.titleUnicode} a={hexStr m.artist} au={hexStr m.artistUnicode} c={hexStr m.creator} v={hexStr m.version} s={hexStr m.source} tg={hexStr m.tags} id={m.beatmapId} sid={m.beatmapSetId}"

def dumpDifficulty (d : Difficulty Float Float32) : String :=
  s!"hp={fx32 d.hpDrainRate} cs={fx32 d.circleSize} od={fx32 d.overallDifficulty} ar={fx32 d.approachRate} sm={fx d.sliderMultiplier} tr={fx d.sliderTickRate}"

def dumpEvents (e : Events Float) : String :=
  s!"bg={hexStr e.backgroundFile} br={joinWith "," (e.breaks.map fun b => fx b.startTime ++ ":" ++ fx b.endTime)}"

def dumpColors (c : Colors) : String :=
  s!"combo={joinWith "," (c.customComboColors.map fmtColor)} custom={joinWith "," (c.customColors.map fun x => hexStr x.name ++ "=" ++ fmtColor x.color)}"

def dumpControlPoints (cp : ControlPoints Float) : String :=
  let tp := cp.timingPoints.map fun p => s!"{fx p.time}:{fx p.beatLen}:{b01 p.omitFirstBarLine}:{p.timeSignature.numerator}"
  let dp := cp.difficultyPoints.map fun p => s!"{fx p.time}:{fx p.sliderVelocity}:{b01 p.generateTicks}"
  let ep := cp.effectPoints.map fun p => s!"{fx p.time}:{b01 p.kiai}:{fx p.scrollSpeed}"
  let sp := cp.samplePoints.map fun p => s!"{fx p.time}:{p.sampleBank.idx}:{p.sampleVolume}:{p.customSampleBank}"
  s!"tp={joinWith "," tp} dp={joinWith "," dp} ep={joinWith "," ep} sp={joinWith "," sp}"

def cps32 (cps : List (PathControlPoint Float32)) : String :=
  joinWith ";" (cps.map fun c => s!"{fx32 c.pos.x}:{fx32 c.pos.y}:{fmtPathType c.pathType}")

def dumpObj (h : HitObject Float Float32) : String :=
  match h.kind with
  | .circle c => s!"C t={fx h.startTime} p={fx32 c.pos.x}:{fx32 c.pos.y} nc={b01 c.newCombo} co={c.comboOffset} s={fmtSamples h.samples}"
  | .slider s =>
    let len := match s.path.expectedDist with | some l => fx l | none => "-"
    s!"S t={fx h.startTime} p={fx32 s.pos.x}:{fx32 s.pos.y} nc={b01 s.newCombo} co={s.comboOffset} rc={s.repeatCount} len={len} vel={fx s.velocity} cps={cps32 s.path.controlPoints} ns={"|".intercalate (s.nodeSamples.map fmtSamples)} s={fmtSamples h.samples}"
  | .spinner s => s!"N t={fx h.startTime} p={fx32 s.pos.x}:{fx32 s.pos.y} d={fx s.duration} nc={b01 s.newCombo} s={fmtSamples h.samples}"
  | .hold s => s!"H t={fx h.startTime} x={fx32 s.posX} d={fx s.duration} s={fmtSamples h.samples}"

def dumpObjects (hs : List (HitObject Float Float32)) : String :=
  s!"n={hs.length}" ++ String.join (hs.map fun h => " | " ++ dumpObj h)

def dumpBeatmap (m : Beatmap Float Float32) : String :=
  s!"fv={m.formatVersion} G[{dumpGeneral m.general}] E[{dumpEditor m.editor}] M[{dumpMetadata m.metadata}] D[{dumpDifficulty m.difficulty}] V[{dumpEvents m.events}] T[{dumpControlPoints m.controlPoints}] C[{dumpColors m.colors}] H[{dumpObjects m.hitObjects}]"

def errTag : CErr → String
  | .panic => "PANIC model-index-or-arith"
  | .fuel => "fuel-exhausted"

def fmtIo {α : Type} (r : Except IoKind α) (f : α → String) : String :=
  match r with
  | .error k => "err " ++ k.tag
  | .ok v => f v

def decBeatmap (bs : List UInt8) : String :=
  fmtIo (decodeBytes (beatmapDecoder (F := Float) (P := Float32)) bs) fun st =>
    match st.finish with
    | .ok m => "ok " ++ dumpBeatmap m
    | .error e => errTag e

def dec9 (bs : List UInt8) : String :=
  let g := fmtIo (decodeBytes (generalDecoder (F := Float) (P := Float32)) bs) fun st => s!"ok G[{dumpGeneral st}]"
  let e := fmtIo (decodeBytes (editorDecoder (F := Float)) bs) fun st => s!"ok E[{dumpEditor st}]"
  let m := fmtIo (decodeBytes metadataDecoder bs) fun st => s!"ok M[{dumpMetadata st}]"
  let d := fmtIo (decodeBytes (difficultyDecoder (F := Float) (P := Float32)) bs) fun st => s!"ok D[{dumpDifficulty st.difficulty}]"
  let v := fmtIo (decodeBytes (eventsDecoder (F := Float)) bs) fun st => s!"ok V[{dumpEvents st}]"
  let c := fmtIo (decodeBytes colorsDecoder bs) fun st => s!"ok C[{dumpColors st}]"
  let t := fmtIo (decodeBytes (timingPointsDecoder (F := Float) (P := Float32)) bs) fun st =>
    let (gen, cp) := st.finish
    s!"ok G[{dumpGeneral gen}] T[{dumpControlPoints cp}]"
  let h := fmtIo (decodeBytes (hitObjectsDecoder (F := Float) (P := Float32)) bs) fun st =>
    match st.finish with
    | .ok ho => s!"ok G[{dumpGeneral ho.general}] D[{dumpDifficulty ho.difficulty}] V[{dumpEvents ho.events}] T[{dumpControlPoints ho.controlPoints}] H[{dumpObjects ho.hitObjects}]"
    | .error e => errTag e
  " ## ".intercalate [s!"Beatmap={decBeatmap bs}", s!"General={g}", s!"Editor={e}", s!"Metadata={m}", s!"Difficulty={d}",
    s!"Events={v}", s!"Colors={c}", s!"TimingPoints={t}", s!"HitObjects={h}"]

/-- decode, then encode: the text `Beatmap::encode_to_string` returns. -/
def encText (bs : List UInt8) : String :=
  fmtIo (decodeBytes (beatmapDecoder (F := Float) (P := Float32)) bs) fun st =>
    match st.finish with
    | .error e => errTag e
    | .ok m =>
      match Encode.encode m with
      | .ok t => "ok " ++ hexStr t
      | .error e => errTag e

/-- decode → encode → decode: `M1 ## text ## M2`. -/
def rtText (bs : List UInt8) : String :=
  fmtIo (decodeBytes (beatmapDecoder (F := Float) (P := Float32)) bs) fun st =>
    match st.finish with
    | .error e => errTag e
    | .ok m1 =>
      match Encode.encode m1 with
      | .error e => errTag e
      | .ok t =>
        match decodeBytes (beatmapDecoder (F := Float) (P := Float32)) (utf8Encode t) with
        | .error k => "err2 " ++ k.tag
        | .ok st2 =>
          match st2.finish with
          | .error e => errTag e
          | .ok m2 => "ok " ++ dumpBeatmap m1 ++ " ## " ++ hexStr t ++ " ## " ++ dumpBeatmap m2

end Rosu.WholeCmd

namespace Rosu
def dispatchWhole (toks : List String) : Option String :=
  match toks with
  | ["dec", hex] => some (WholeCmd.decBeatmap (unhex hex))
  | ["dec9", hex] => some (WholeCmd.dec9 (unhex hex))
  | ["enc", hex] => some (WholeCmd.encText (unhex hex))
  | ["rt", hex] => some (WholeCmd.rtText (unhex hex))
  | ["decshift", _, a, b] => some (WholeCmd.decBeatmap (unhex a) ++ " ## " ++ WholeCmd.decBeatmap (unhex b))
  | _ => none
end Rosu
