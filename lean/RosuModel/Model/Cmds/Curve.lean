/-
  Model/Cmds/Curve.lean — driver requests of the curve model (C16–C19), on the IEEE instances
  `P := Float32`, `F := Float`:
  `curve|curvegeo <mode> <L: - | f64 bits> <pt>…`      pt = `<x f32 bits>:<y f32 bits>:<C|B|B<deg>|L|P|->`
  `pos <mode> <L> <pt>… @ <progress f64 bits>…`
  `curveseq <mode> <pt>… | <pt>… | … # <op>…`           ops: `o<i>:<L>` owned, `b<i>:<L>` borrowed on the shared
      buffers; on the one `SliderPath` (starts as pool[0], None): `c` curve(), `w` curve_with_bufs, `r` borrowed_curve,
      `m<i>` control_points_mut := pool[i], `l<L>` expected_dist_mut := L, `x` clear_curve.
-/
import RosuModel.Model.Curve
import RosuModel.Model.Cmds.Codec
namespace Rosu

/-- `f32::acos` etc. (only `acos` is used on the f32 side). -/
instance : Trig Float32 where
  sin := Float32.sin
  cos := Float32.cos
  acos := Float32.acos
  atan2 := Float32.atan2
  pi := Float32.ofBits 0x40490FDB

namespace CurveCmd

/-- fuel handed to every fuel-taking loop by the driver (`fuel-exhausted` is reported, never a default). -/
def curveFuel : Nat := 2000000

abbrev P32 := Float32
abbrev F64 := Float

def fmtF64 (x : Float) : String := if x.isNaN then "nan" else hex64 x
def fmtF32 (x : Float32) : String := if x.isNaN then "nan" else hex32 x
def fmtPos (p : Pos Float32) : String := fmtF32 p.x ++ ":" ++ fmtF32 p.y

def fmtCurve (c : Curve Float32 Float) : String :=
  "p=" ++ toString c.path.length ++ String.join (c.path.map fun p => " " ++ fmtPos p) ++
  " l=" ++ toString c.lengths.length ++ String.join (c.lengths.map fun l => " " ++ fmtF64 l)

def fmtErr : CErr → String
  | .panic => "PANIC"
  | .fuel => "fuel-exhausted"

def parseF64Tok (s : String) : Float := Float.ofBits (UInt64.ofNat (natOfHex s))
def parseF32Tok (s : String) : Float32 := Float32.ofBits (UInt32.ofNat (natOfHex s))

def parseLen (s : String) : Option Float := if s == "-" then none else some (parseF64Tok s)

def parseMode (s : String) : GameMode := GameMode.ofIdx s.toNat!

def parsePathType (s : String) : Option PathType :=
  if s == "-" then none
  else if s == "C" then some PathType.catmull
  else if s == "L" then some PathType.linear
  else if s == "P" then some PathType.perfect
  else if s == "B" then some PathType.bezier
  else if s.startsWith "B" then some ⟨.bspline, (s.drop 1).toString.toInt?⟩
  else none

def parsePt (s : String) : PathControlPoint Float32 :=
  match s.splitOn ":" with
  | [x, y, t] => { pos := ⟨parseF32Tok x, parseF32Tok y⟩, pathType := parsePathType t }
  | _ => { pos := Pos.zero, pathType := none }

def splitAt (sep : String) (toks : List String) : List String × List String :=
  (toks.takeWhile (· ≠ sep), (toks.dropWhile (· ≠ sep)).drop 1)

/-- groups separated by `|` -/
def splitGroups : List String → List (List String)
  | [] => [[]]
  | t :: rest =>
    match splitGroups rest with
    | g :: gs => if t == "|" then [] :: g :: gs else (t :: g) :: gs
    | [] => [[t]]

def fmtProgress (c : Curve Float32 Float) (q : Float) : String :=
  let d := Curve.progressToDist c.lengths q
  let i := Curve.idxOfDist c.lengths d
  let j := Curve.idxOfDist c.lengths q
  let pos := match Curve.positionAt c.path c.lengths q with
    | .ok p => fmtPos p | .error e => fmtErr e
  let k := match Curve.interpolateVertices c.path c.lengths j q with
    | .ok p => fmtPos p | .error e => fmtErr e
  " P=" ++ pos ++ " D=" ++ fmtF64 d ++ " I=" ++ toString i ++ " J=" ++ toString j ++ " K=" ++ k

structure SeqState where
  bufs : CurveBuffers Float32 Float := {}
  sp : SliderPath Float32 Float
  out : List String := []

def seqOp (mode : GameMode) (pool : List (List (PathControlPoint Float32))) (st : SeqState) (op : String) :
    Outcome SeqState := do
  let kind := op.take 1 |>.toString
  let arg := (op.drop 1).toString
  let idxLen : Nat × Option Float := match arg.splitOn ":" with
    | [i, l] => (i.toNat!, parseLen l)
    | _ => (0, none)
  if kind == "o" then
    let (c, b) ← Curve.new curveFuel mode (pool.getD idxLen.1 []) idxLen.2 st.bufs
    pure { st with bufs := b, out := fmtCurve c :: st.out }
  else if kind == "b" then
    let (c, b) ← Curve.newBorrowed curveFuel mode (pool.getD idxLen.1 []) idxLen.2 st.bufs
    pure { st with bufs := b, out := fmtCurve c :: st.out }
  else if kind == "c" then
    let (c, sp) ← st.sp.getCurve curveFuel
    pure { st with sp := sp, out := fmtCurve c :: st.out }
  else if kind == "w" then
    let (c, sp, b) ← st.sp.curveWithBufs curveFuel st.bufs
    pure { st with sp := sp, bufs := b, out := fmtCurve c :: st.out }
  else if kind == "r" then
    let (c, b) ← st.sp.borrowedCurve curveFuel st.bufs
    pure { st with bufs := b, out := fmtCurve c :: st.out }
  else if kind == "m" then
    pure { st with sp := st.sp.controlPointsMut (fun _ => pool.getD arg.toNat! []), out := "-" :: st.out }
  else if kind == "l" then
    pure { st with sp := st.sp.expectedDistMut (fun _ => parseLen arg), out := "-" :: st.out }
  else if kind == "x" then
    pure { st with sp := st.sp.clearCurve, out := "-" :: st.out }
  else if kind == "k" then
    -- `sp.clone_from(&SliderPath::new(mode, pool[i], L))` (derived `Clone`: every field, the empty cache included)
    pure { st with sp := SliderPath.new mode (pool.getD idxLen.1 []) idxLen.2, out := "-" :: st.out }
  else if kind == "K" then
    -- the source has cached its curve before being cloned from
    let (_, src) ← (SliderPath.new mode (pool.getD idxLen.1 []) idxLen.2 : SliderPath Float32 Float).getCurve curveFuel
    pure { st with sp := src, out := "-" :: st.out }
  else throw .panic

end CurveCmd
open CurveCmd in
def dispatchCurve (toks : List String) : Option String :=
  match toks with
  | cmd :: mode :: len :: rest =>
    if cmd == "curve" || cmd == "curvegeo" then
      let pts := rest.map parsePt
      some (match Curve.new curveFuel (parseMode mode) pts (parseLen len) ({} : CurveBuffers Float32 Float) with
        | .ok (c, _) => "ok " ++ fmtCurve c
        | .error e => fmtErr e)
    else if cmd == "pos" then
      let (ptToks, qs) := splitAt "@" rest
      let pts := ptToks.map parsePt
      some (match Curve.new curveFuel (parseMode mode) pts (parseLen len) ({} : CurveBuffers Float32 Float) with
        | .ok (c, _) => "ok" ++ String.join (qs.map fun q => fmtProgress c (parseF64Tok q))
        | .error e => fmtErr e)
    else if cmd == "curveseq" then
      let (poolToks, ops) := splitAt "#" (len :: rest)
      let pool := (splitGroups poolToks).map (·.map parsePt)
      let m := parseMode mode
      let st0 : SeqState := { sp := SliderPath.new m (pool.getD 0 []) none }
      some (match ops.foldlM (seqOp m pool) st0 with
        | .ok st => "ok " ++ " | ".intercalate st.out.reverse
        | .error e => fmtErr e)
    else none
  | _ => none

end Rosu
