/-
  Model/Cmds/Sections.lean — driver requests `sec <editor|metadata|difficulty|events|colors> <hex line>…`:
  feeds the lines to the section parser starting from the default state, prints the `Ok/Err`
  flag of every line and the final state.
-/
import RosuModel.Model.Proto
import RosuModel.Model.FloatInst
import RosuModel.Model.Sections
namespace Rosu

def runLines {σ : Type} (f : σ → Str → σ × Bool) (st : σ) (ls : List Str) : σ × String :=
  ls.foldl (fun (acc : σ × String) l =>
    let (st', ok) := f acc.1 l
    (st', acc.2 ++ (if ok then "1" else "0"))) (st, "")

def joinWith (sep : String) (xs : List String) : String :=
  if xs.isEmpty then "-" else sep.intercalate xs

def fmtEditor (e : Editor Float) : String :=
  s!"bm={joinWith "," (e.bookmarks.map toString)} ds={hex64 e.distanceSpacing} bd={e.beatDivisor} gs={e.gridSize} tz={hex64 e.timelineZoom}"

def fmtMetadata (m : Metadata) : String :=
  s!"t={hexStr m.title} tu={hexStr m.titleUnicode} a={hexStr m.artist} au={hexStr m.artistUnicode} c={hexStr m.creator} v={hexStr m.version} s={hexStr m.source} tg={hexStr m.tags} id={m.beatmapId} sid={m.beatmapSetId}"

def fmtDifficulty (s : DifficultyState Float Float32) : String :=
  let d := s.difficulty
  s!"hp={hex32 d.hpDrainRate} cs={hex32 d.circleSize} od={hex32 d.overallDifficulty} ar={hex32 d.approachRate} sm={hex64 d.sliderMultiplier} tr={hex64 d.sliderTickRate} har={if s.hasApproachRate then 1 else 0}"

def fmtEventsSection (e : Events Float) : String :=
  s!"bg={hexStr e.backgroundFile} br={joinWith "," (e.breaks.map fun b => hex64 b.startTime ++ ":" ++ hex64 b.endTime)}"

def fmtColor (c : Color) : String := s!"{c.r}.{c.g}.{c.b}.{c.a}"

def fmtColors (c : Colors) : String :=
  s!"combo={joinWith "," (c.customComboColors.map fmtColor)} custom={joinWith "," (c.customColors.map fun x => hexStr x.name ++ "=" ++ fmtColor x.color)}"

def dispatchSections (toks : List String) : Option String :=
  match toks with
  | "sec" :: name :: hexes =>
    let ls := hexes.map (fun h => utf8Lossy (unhex h))
    match name with
    | "editor" =>
      let (st, fl) := runLines (parseEditor (F := Float)) Editor.default ls
      some s!"ok={fl} {fmtEditor st}"
    | "metadata" =>
      let (st, fl) := runLines parseMetadata Metadata.default ls
      some s!"ok={fl} {fmtMetadata st}"
    | "difficulty" =>
      let (st, fl) := runLines (parseDifficulty (F := Float) (P := Float32)) DifficultyState.create ls
      some s!"ok={fl} {fmtDifficulty st}"
    | "events" =>
      let (st, fl) := runLines (parseEvents (F := Float)) Events.default ls
      some s!"ok={fl} {fmtEventsSection st}"
    | "colors" =>
      let (st, fl) := runLines parseColors Colors.default ls
      some s!"ok={fl} {fmtColors st}"
    | _ => none
  | _ => none

end Rosu
