/-
  Model/Cmds/Writer.lean — driver request `writesched` (C09, write side):
  `writesched <flush> <call>… / <event>…` with calls as hex (`-` = empty call), flush `ok` or an
  error kind, events `a<n>` (budget), `i` (Interrupted), `z` (`Ok(0)`), `f<Kind>`.
-/
import RosuModel.Model.Proto
import RosuModel.Model.Writer
namespace Rosu

def wrParseSched : List String → WSched
  | [] => []
  | t :: ts =>
    let e : WEv :=
      if t == "i" then .intr
      else if t == "z" then .zero
      else if t.startsWith "f" then .fail (IoKind.ofTag (t.drop 1).toString)
      else .accept (t.drop 1).toString.toNat!
    e :: wrParseSched ts

def wrFmt (r : WResult) : String :=
  (match r.result with
    | .ok () => "ok"
    | .error k => "err " ++ k.tag) ++
  " flushed=" ++ (if r.flushed then "1" else "0") ++ " written=" ++ hexBytes r.written

def wrSplitSlash : List String → List String × List String
  | [] => ([], [])
  | t :: ts =>
    if t == "/" then ([], ts)
    else let (a, b) := wrSplitSlash ts; (t :: a, b)

def dispatchWriter (toks : List String) : Option String :=
  match toks with
  | "writesched" :: fl :: rest =>
    let (calls, evs) := wrSplitSlash rest
    let flush : Except IoKind Unit := if fl == "ok" then .ok () else .error (IoKind.ofTag fl)
    some (wrFmt (encodeTo (wrParseSched evs) flush (calls.map unhex)))
  | _ => none

end Rosu
