/-
  Model/Cmds/Events.lean — driver requests for the slider event stream (C20):

  `sev <start> <spanDur> <velocity> <tickDist> <totalDist> <spanCount> [<pre> [<k>]]`
      one `SliderEventsIter` on a buffer pre-filled with `<pre>` junk events (default 0), consuming
      `<k>` events (`all` = until `None`, default);
  `sevseq <pre> (<start> <spanDur> <velocity> <tickDist> <totalDist> <spanCount> <k>)*`
      several iterators one after the other on the same buffer, each dropped after `<k>` events.

  f64 arguments are hex bit patterns, `<spanCount>` a decimal `i32`. Answer: per iterator
  `ok n=<count> <event>*` | `panic` | `fuel-exhausted`, joined by ` | `, then ` | buf=<len> <event>*`
  (the buffer left behind, front to back). `<event>` = `<K>:<span idx>:<span start>:<time>:<progress>`,
  `K` ∈ H T R L E (head, tick, repeat, last tick, tail = end), floats as hex bits, NaN as `nan`.
-/
import RosuModel.Model.SliderEvents
import RosuModel.Model.Cmds.Codec
namespace Rosu
open SliderEvents

/-- fuel of the tick loop in the driver: the generators keep `len / tick_dist ≤ 10⁵`. -/
def sevTickFuel : Nat := 10000000

def fmtF64 (x : Float) : String := if x.isNaN then "nan" else hex64 x

def f64OfHex (b : String) : Float := Float.ofBits (UInt64.ofNat (natOfHex b))

def Kind.letter : Kind → String
  | .head => "H" | .tick => "T" | .repeatPt => "R" | .lastTick => "L" | .tail => "E"

def fmtEvent (e : SliderEvent Float) : String :=
  Kind.letter e.kind ++ ":" ++ toString e.spanIdx ++ ":" ++ fmtF64 e.spanStartTime ++ ":" ++
    fmtF64 e.time ++ ":" ++ fmtF64 e.pathProgress

def fmtEvents (evs : List (SliderEvent Float)) : String :=
  String.join (evs.map fun e => " " ++ fmtEvent e)

def fmtOutcome : Outcome Float → String
  | .events evs => "ok n=" ++ toString evs.length ++ fmtEvents evs
  | .panicked => "panic"
  | .fuelExhausted => "fuel-exhausted"

/-- the junk a previous user left in the buffer: `pre` events, pushed in order `0 … pre-1`. -/
def junkBuf (pre : Nat) : List (SliderEvent Float) :=
  (List.range pre).reverse.map fun (i : Nat) =>
    { kind := .tick, spanIdx := 1000 + (i : Int), spanStartTime := Float.ofNat i,
      time := Float.ofNat (2 * i), pathProgress := Float.ofScientific 5 true 1 }

def parseTake (s : String) : Option Nat := if s == "all" then none else some (s.toNat?.getD 0)

def parseUses : List String → Option (List (Use Float))
  | [] => some []
  | s :: d :: v :: t :: l :: n :: k :: rest =>
    (parseUses rest).map fun us =>
      { startTime := f64OfHex s, spanDuration := f64OfHex d, velocity := f64OfHex v,
        tickDist := f64OfHex t, totalDist := f64OfHex l, spanCount := n.toInt?.getD 0,
        take := parseTake k } :: us
  | _ => none

def fmtSeq (r : List (Outcome Float) × List (SliderEvent Float)) : String :=
  String.intercalate " | " (r.1.map fmtOutcome ++
    ["buf=" ++ toString r.2.length ++ fmtEvents r.2.reverse])

def dispatchEvents (toks : List String) : Option String :=
  match toks with
  | "sev" :: s :: d :: v :: t :: l :: n :: opt =>
    let (pre, k) := match opt with
      | [] => ("0", "all")
      | [pre] => (pre, "all")
      | pre :: k :: _ => (pre, k)
    (parseUses [s, d, v, t, l, n, k]).map fun us =>
      fmtSeq (runSeq sevTickFuel us (junkBuf (pre.toNat?.getD 0)))
  | "sevseq" :: pre :: rest =>
    some (match parseUses rest with
      | none => "bad-request"
      | some us => fmtSeq (runSeq sevTickFuel us (junkBuf (pre.toNat?.getD 0))))
  | _ => none

end Rosu
