/-
  Model/Cmds/Reader.lean — driver requests about delivery and text encoding (C08, C09, C10):
  `bufreader <cap> <hex>`, `fromstr <hex>`, `frompath <hex>`, `faultsched <events>`,
  `reftext <hex>`, `enc4 <hex of UTF-8 text>`.
-/
import RosuModel.Model.Cmds.Frame
namespace Rosu

/-- capacity of `BufReader::new` (std's `DEFAULT_BUF_SIZE`). -/
def rdDefaultBufSize : Nat := 8192

def rdUtf8Bom : List UInt8 := [0xEF, 0xBB, 0xBF]
def rdUtf16leBom : List UInt8 := [0xFF, 0xFE]
def rdUtf16beBom : List UInt8 := [0xFE, 0xFF]

/-- the four supported encodings of a text. -/
def rdFourEncodings (t : Str) : List (List UInt8) :=
  [utf8Encode t, rdUtf8Bom ++ utf8Encode t, rdUtf16leBom ++ encodeUtf16 true t, rdUtf16beBom ++ encodeUtf16 false t]

def dispatchReader (toks : List String) : Option String :=
  match toks with
  | ["bufreader", cap, hex] =>
    some (fmtRec (decodeSched recorder (Sched.chunksOf cap.toNat! (unhex hex))))
  | ["fromstr", hex] => some (fmtRec (decodeBytes recorder (unhex hex)))
  | ["frompath", hex] => some (fmtRec (decodeSched recorder (Sched.chunksOf rdDefaultBufSize (unhex hex))))
  | "faultsched" :: evs => some (fmtRec (decodeSched recorder (parseSched evs)))
  | ["reftext", hex] => some (fmtRec (decodeBytes recorder (unhex hex)))
  | ["enc4", hex] =>
    let t := utf8Lossy (unhex hex)
    some (String.intercalate " | " ((rdFourEncodings t).map fun bs => fmtRec (decodeBytes recorder bs)))
  | _ => none

end Rosu
