/-
  Model/Cmds/Reader.lean — driver requests about delivery and text encoding (C08, C09, C10):
  `bufreader <cap> <hex>`, `fromstr <hex>`, `frompath <hex>`, `faultsched <events>`,
  `reftext <hex>`, `enc4 <hex of UTF-8 text>`.
-/
import RosuModel.Model.Cmds.Frame
namespace Rosu

/-- capacity of `BufReader::new` (std's `DEFAULT_BUF_SIZE`). -/
def defaultBufSize : Nat := 8192

def utf8Bom : List UInt8 := [0xEF, 0xBB, 0xBF]
def utf16leBom : List UInt8 := [0xFF, 0xFE]
def utf16beBom : List UInt8 := [0xFE, 0xFF]

/-- the four supported encodings of a text. -/
def fourEncodings (t : Str) : List (List UInt8) :=
  [utf8Encode t, utf8Bom ++ utf8Encode t, utf16leBom ++ encodeUtf16 true t, utf16beBom ++ encodeUtf16 false t]

def dispatchReader (toks : List String) : Option String :=
  match toks with
  | ["bufreader", cap, hex] =>
    some (fmtRec (decodeSched recorder (Sched.chunksOf cap.toNat! (unhex hex))))
  | ["fromstr", hex] => some (fmtRec (decodeBytes recorder (unhex hex)))
  | ["frompath", hex] => some (fmtRec (decodeSched recorder (Sched.chunksOf defaultBufSize (unhex hex))))
  | "faultsched" :: evs => some (fmtRec (decodeSched recorder (parseSched evs)))
  | ["reftext", hex] => some (fmtRec (decodeBytes recorder (unhex hex)))
  | ["enc4", hex] =>
    let t := utf8Lossy (unhex hex)
    some (String.intercalate " | " ((fourEncodings t).map fun bs => fmtRec (decodeBytes recorder bs)))
  | _ => none

end Rosu
