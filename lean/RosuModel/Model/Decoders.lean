/-
  Model/Decoders.lean — the nine `DecodeBeatmap` implementations (src/beatmap.rs and the
  `impl DecodeBeatmap for …` blocks of every section), assembled by the same delegation chain as the
  Rust: Beatmap ▸ HitObjects ▸ TimingPoints ▸ General, plus Editor / Metadata / Colours / Difficulty /
  Events. Only what a line does to the state is modelled here (the `Result` is discarded by the
  driver); finalisation is in Model/Finalize.lean.
-/
import RosuModel.Model.Framing
import RosuModel.Model.Sections
import RosuModel.Model.General
import RosuModel.Model.TimingDecode
import RosuModel.Model.HitObjectLine
namespace Rosu

variable {F P : Type} [Scalar F] [Scalar P] [Cvt P F]

/-- `HitObjectsState`. -/
structure HitObjectsState (F P : Type) where
  core : HOCore F P
  events : Events F
  timingPoints : TimingPointsState F P
  difficulty : DifficultyState F P

/-- `BeatmapState`. -/
structure BeatmapState (F P : Type) where
  version : Int
  editor : Editor F
  metadata : Metadata
  colors : Colors
  hitObjects : HitObjectsState F P

def HitObjectsState.create : HitObjectsState F P :=
  { core := {}, events := Events.default, timingPoints := TimingPointsState.create, difficulty := DifficultyState.create }

def BeatmapState.create (version : Int) : BeatmapState F P :=
  { version := version, editor := Editor.default, metadata := Metadata.default, colors := Colors.default,
    hitObjects := HitObjectsState.create }

/-- `<HitObjects as DecodeBeatmap>::parse_*`, as a step function per section. -/
def HitObjectsState.step (sec : Section) (st : HitObjectsState F P) (line : Str) : HitObjectsState F P :=
  match sec with
  | .general => { st with timingPoints := (st.timingPoints.parseGeneral line).2 }
  | .difficulty => { st with difficulty := (parseDifficulty st.difficulty line).1 }
  | .events => { st with events := (parseEvents st.events line).1 }
  | .timingPoints => { st with timingPoints := (parseTimingPoints st.timingPoints line).2 }
  | .hitObjects => { st with core := (parseHitObjectLine st.timingPoints.general.mode st.core line).1 }
  | _ => st

/-- `<Beatmap as DecodeBeatmap>::parse_*`. -/
def BeatmapState.step (sec : Section) (st : BeatmapState F P) (line : Str) : BeatmapState F P :=
  match sec with
  | .editor => { st with editor := (parseEditor st.editor line).1 }
  | .metadata => { st with metadata := (parseMetadata st.metadata line).1 }
  | .colors => { st with colors := (parseColors st.colors line).1 }
  | .general | .difficulty | .events | .timingPoints | .hitObjects =>
    { st with hitObjects := st.hitObjects.step sec line }
  | _ => st

def beatmapDecoder : LineDecoder (BeatmapState F P) where
  create := BeatmapState.create
  step := BeatmapState.step

def hitObjectsDecoder : LineDecoder (HitObjectsState F P) where
  create := fun _ => HitObjectsState.create
  step := HitObjectsState.step

def timingPointsDecoder : LineDecoder (TimingPointsState F P) where
  create := fun _ => TimingPointsState.create
  step := fun sec st line =>
    match sec with
    | .general => (st.parseGeneral line).2
    | .timingPoints => (parseTimingPoints st line).2
    | _ => st

def generalDecoder : LineDecoder (GeneralState F P) where
  create := fun _ => GeneralState.default
  step := fun sec st line => match sec with | .general => (parseGeneral st line).2 | _ => st

def editorDecoder : LineDecoder (Editor F) where
  create := fun _ => Editor.default
  step := fun sec st line => match sec with | .editor => (parseEditor st line).1 | _ => st

def metadataDecoder : LineDecoder Metadata where
  create := fun _ => Metadata.default
  step := fun sec st line => match sec with | .metadata => (parseMetadata st line).1 | _ => st

def difficultyDecoder : LineDecoder (DifficultyState F P) where
  create := fun _ => DifficultyState.create
  step := fun sec st line => match sec with | .difficulty => (parseDifficulty st line).1 | _ => st

def eventsDecoder : LineDecoder (Events F) where
  create := fun _ => Events.default
  step := fun sec st line => match sec with | .events => (parseEvents st line).1 | _ => st

def colorsDecoder : LineDecoder Colors where
  create := fun _ => Colors.default
  step := fun sec st line => match sec with | .colors => (parseColors st line).1 | _ => st

end Rosu
