/-
  Model/Utf.lean — BOM sniffing, lossy UTF-8 decoding and UTF-16 decoding as
  performed by `src/reader/encoding.rs` and `src/reader/u16_iter.rs`.
-/
import RosuModel.Model.Text
namespace Rosu

inductive Encoding | utf8 | utf16be | utf16le
  deriving DecidableEq, Repr, Inhabited

/-- `Encoding::from_bom`. -/
def Encoding.fromBom : List UInt8 → Encoding × Nat
  | 0xEF :: 0xBB :: 0xBF :: _ => (.utf8, 3)
  | 0xFF :: 0xFE :: _ => (.utf16le, 2)
  | 0xFE :: 0xFF :: _ => (.utf16be, 2)
  | _ => (.utf8, 0)

def replacement : Char := Char.ofNat 0xFFFD

def isCont (b : UInt8) : Bool := 0x80 ≤ b && b ≤ 0xBF

/-- allowed range of the second byte, given the lead byte of a 3- or 4-byte sequence. -/
def secondOk (b0 b1 : UInt8) : Bool :=
  if b0 == 0xE0 then 0xA0 ≤ b1 && b1 ≤ 0xBF
  else if b0 == 0xED then 0x80 ≤ b1 && b1 ≤ 0x9F
  else if b0 == 0xF0 then 0x90 ≤ b1 && b1 ≤ 0xBF
  else if b0 == 0xF4 then 0x80 ≤ b1 && b1 ≤ 0x8F
  else isCont b1

def cp2 (b0 b1 : UInt8) : Char :=
  Char.ofNat (((b0.toNat &&& 0x1F) <<< 6) ||| (b1.toNat &&& 0x3F))
def cp3 (b0 b1 b2 : UInt8) : Char :=
  Char.ofNat (((b0.toNat &&& 0x0F) <<< 12) ||| ((b1.toNat &&& 0x3F) <<< 6) ||| (b2.toNat &&& 0x3F))
def cp4 (b0 b1 b2 b3 : UInt8) : Char :=
  Char.ofNat (((b0.toNat &&& 0x07) <<< 18) ||| ((b1.toNat &&& 0x3F) <<< 12) |||
    ((b2.toNat &&& 0x3F) <<< 6) ||| (b3.toNat &&& 0x3F))

/--
Lossy UTF-8 decoding with the "maximal subpart" replacement rule — the function
computed by the `from_utf8`/`valid_up_to`/`error_len` loop of `Encoding::decode`
(and by `String::from_utf8_lossy`). `fuel` bounds the recursion by the input length.
-/
def utf8LossyFuel : Nat → List UInt8 → Str
  | 0, _ => []
  | _, [] => []
  | fuel + 1, b0 :: rest =>
    if b0 < 0x80 then Char.ofNat b0.toNat :: utf8LossyFuel fuel rest
    else if 0xC2 ≤ b0 && b0 ≤ 0xDF then
      match rest with
      | [] => [replacement]
      | b1 :: r =>
        if isCont b1 then cp2 b0 b1 :: utf8LossyFuel fuel r
        else replacement :: utf8LossyFuel fuel rest
    else if 0xE0 ≤ b0 && b0 ≤ 0xEF then
      match rest with
      | [] => [replacement]
      | b1 :: r1 =>
        if !secondOk b0 b1 then replacement :: utf8LossyFuel fuel rest
        else match r1 with
          | [] => [replacement]
          | b2 :: r2 =>
            if isCont b2 then cp3 b0 b1 b2 :: utf8LossyFuel fuel r2
            else replacement :: utf8LossyFuel fuel r1
    else if 0xF0 ≤ b0 && b0 ≤ 0xF4 then
      match rest with
      | [] => [replacement]
      | b1 :: r1 =>
        if !secondOk b0 b1 then replacement :: utf8LossyFuel fuel rest
        else match r1 with
          | [] => [replacement]
          | b2 :: r2 =>
            if !isCont b2 then replacement :: utf8LossyFuel fuel r1
            else match r2 with
              | [] => [replacement]
              | b3 :: r3 =>
                if isCont b3 then cp4 b0 b1 b2 b3 :: utf8LossyFuel fuel r3
                else replacement :: utf8LossyFuel fuel r2
    else replacement :: utf8LossyFuel fuel rest

def utf8Lossy (bs : List UInt8) : Str := utf8LossyFuel bs.length bs

/-- `DoubleByteIterator` + `u16::from_{le,be}_bytes`: the odd tail byte is dropped. -/
def u16s (le : Bool) : List UInt8 → List Nat
  | a :: b :: rest =>
    (if le then b.toNat * 256 + a.toNat else a.toNat * 256 + b.toNat) :: u16s le rest
  | _ => []

def isHigh (u : Nat) : Bool := 0xD800 ≤ u && u ≤ 0xDBFF
def isLow (u : Nat) : Bool := 0xDC00 ≤ u && u ≤ 0xDFFF

/-- `char::decode_utf16(..).map(|r| r.unwrap_or(REPLACEMENT_CHARACTER))`. -/
def decodeUtf16 : List Nat → Str
  | [] => []
  | [u] => if isHigh u || isLow u then [replacement] else [Char.ofNat u]
  | u :: u2 :: rest2 =>
    if !(isHigh u || isLow u) then Char.ofNat u :: decodeUtf16 (u2 :: rest2)
    else if isLow u then replacement :: decodeUtf16 (u2 :: rest2)
    else if isLow u2 then
      Char.ofNat (0x10000 + ((u - 0xD800) <<< 10) + (u2 - 0xDC00)) :: decodeUtf16 rest2
    else replacement :: decodeUtf16 (u2 :: rest2)

/-- `Encoding::decode`. -/
def Encoding.decode (e : Encoding) (bs : List UInt8) : Str :=
  match e with
  | .utf8 => utf8Lossy bs
  | .utf16le => decodeUtf16 (u16s true bs)
  | .utf16be => decodeUtf16 (u16s false bs)

/-- UTF-8 encoding of a string (used by the driver's output and by the encoder model). -/
def utf8Encode (s : Str) : List UInt8 := s.flatMap String.utf8EncodeChar

/-- UTF-16 code units of one character (`char::encode_utf16`). -/
def charUnits (c : Char) : List Nat :=
  if c.toNat < 0x10000 then [c.toNat]
  else [0xD800 + (c.toNat - 0x10000) / 1024, 0xDC00 + (c.toNat - 0x10000) % 1024]

/-- `str::encode_utf16`. -/
def utf16Units (s : Str) : List Nat := s.flatMap charUnits

/-- `u16::to_{le,be}_bytes`. -/
def unitBytes (le : Bool) (u : Nat) : List UInt8 :=
  if le then [UInt8.ofNat (u % 256), UInt8.ofNat (u / 256)]
  else [UInt8.ofNat (u / 256), UInt8.ofNat (u % 256)]

/-- UTF-16 encoding of a text without BOM (used by the driver's `enc4` request and by C10). -/
def encodeUtf16 (le : Bool) (s : Str) : List UInt8 := (utf16Units s).flatMap (unitBytes le)

end Rosu
