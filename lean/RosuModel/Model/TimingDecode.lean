/-
  Model/TimingDecode.lean — `src/section/timing_points/decode.rs`: `TimingPointsState`, the `Pending`
  trait (`push_front` / `push_back`), `add_control_point`, `flush_pending_points`,
  `<TimingPoints as DecodeBeatmap>::parse_timing_points` / `parse_general`, `From<TimingPointsState>`.

  `parse_timing_points` is split in two at the point where the Rust stops parsing and starts
  mutating: `parseTpFields` (every `?` of the Rust function, in order, incl. the NaN test) and
  `applyTpLine` (the four `add_control_point` calls). No state is written before the last `?`.
-/
import RosuModel.Model.General
import RosuModel.Model.ControlPoints
namespace Rosu

/-- `ParseTimingPointsError`. -/
inductive TpErr
  | effectFlags | general (e : GeneralErr) | invalidLine | number (e : NumErr) | sampleBank
  | timeSignature | timingControlPointNaN
  deriving DecidableEq, Repr

def TpErr.tag : TpErr → String
  | .effectFlags => "EffectFlags" | .general e => "General." ++ e.tag | .invalidLine => "InvalidLine"
  | .number e => "Number." ++ e.tag | .sampleBank => "SampleBank" | .timeSignature => "TimeSignature"
  | .timingControlPointNaN => "TimingControlPointNaN"

/-- the four `pending_*_point` fields of `TimingPointsState` (grouped; same content). -/
structure Pending (F : Type) where
  timing : Option (TimingPoint F) := none
  difficulty : Option (DifficultyPoint F) := none
  effect : Option (EffectPoint F) := none
  sample : Option (SamplePoint F) := none

def Pending.empty {F : Type} : Pending F := {}

/-- `TimingPointsState`. -/
structure TimingPointsState (F P : Type) where
  general : GeneralState F P
  pendingTime : F
  pending : Pending F
  controlPoints : ControlPoints F

/-- what a timing-point line says once all its fields are parsed (the locals of `parse_timing_points`
at the point where it starts to mutate the state). -/
structure TpLine (F : Type) where
  time : F
  beatLen : F
  speedMultiplier : F
  timeSignature : TimeSignature
  sampleSet : SampleBank
  customSampleBank : Int
  sampleVolume : Int
  timingChange : Bool
  kiai : Bool
  omitFirstBarLine : Bool

/-- `Pending::push_front` (`timing_change`: only fills an empty slot) / `push_back` (overwrites). -/
def pushSlot {α : Type} (slot : Option α) (p : α) (timingChange : Bool) : Option α :=
  if timingChange then
    (match slot with
     | none => some p
     | some q => some q)
  else some p

/-- `EffectFlags::has_flag` on a two's-complement `i32`. -/
def flagKiai (n : Int) : Bool := n % 2 == 1
def flagOmitFirstBarLine (n : Int) : Bool := (n / 8) % 2 == 1

section
variable {F P : Type} [Scalar F] [Scalar P]

/-- `<TimingPointsState as DecodeState>::create`. -/
def TimingPointsState.create : TimingPointsState F P :=
  { general := GeneralState.default, pendingTime := 0, pending := Pending.empty,
    controlPoints := ControlPoints.empty }

/-- `(time - self.pending_control_points_time).abs() >= f64::EPSILON` is **false**. -/
def sameGroup (time pendingTime : F) : Bool :=
  !Scalar.ge (Scalar.abs (time - pendingTime)) (Scalar.eps : F)

/-- the collection after `flush_pending_points`: timing, difficulty, effect, sample — in this order. -/
def flushInto (cp : ControlPoints F) (pd : Pending F) : ControlPoints F :=
  let cp := match pd.timing with | some p => cp.addTiming p | none => cp
  let cp := match pd.difficulty with | some p => cp.addDifficulty p | none => cp
  let cp := match pd.effect with | some p => cp.addEffect p | none => cp
  match pd.sample with | some p => cp.addSample p | none => cp

/-- `TimingPointsState::flush_pending_points` (`take()` empties every slot). -/
def flushPendingPoints (st : TimingPointsState F P) : TimingPointsState F P :=
  { st with controlPoints := flushInto st.controlPoints st.pending, pending := Pending.empty }

/-- the first half of `add_control_point`: flush when the time moved by at least `EPSILON`. -/
def maybeFlush (st : TimingPointsState F P) (time : F) : TimingPointsState F P :=
  if sameGroup time st.pendingTime then st else flushPendingPoints st

/-- `add_control_point::<TimingPoint>`. -/
def addTimingCP (st : TimingPointsState F P) (time : F) (p : TimingPoint F) (tc : Bool) :
    TimingPointsState F P :=
  let st := maybeFlush st time
  { st with pending := { st.pending with timing := pushSlot st.pending.timing p tc }, pendingTime := time }

/-- `add_control_point::<DifficultyPoint>`. -/
def addDifficultyCP (st : TimingPointsState F P) (time : F) (p : DifficultyPoint F) (tc : Bool) :
    TimingPointsState F P :=
  let st := maybeFlush st time
  { st with pending := { st.pending with difficulty := pushSlot st.pending.difficulty p tc }, pendingTime := time }

/-- `add_control_point::<SamplePoint>`. -/
def addSampleCP (st : TimingPointsState F P) (time : F) (p : SamplePoint F) (tc : Bool) :
    TimingPointsState F P :=
  let st := maybeFlush st time
  { st with pending := { st.pending with sample := pushSlot st.pending.sample p tc }, pendingTime := time }

/-- `add_control_point::<EffectPoint>`. -/
def addEffectCP (st : TimingPointsState F P) (time : F) (p : EffectPoint F) (tc : Bool) :
    TimingPointsState F P :=
  let st := maybeFlush st time
  { st with pending := { st.pending with effect := pushSlot st.pending.effect p tc }, pendingTime := time }

/-- `split.next().map(i32::parse).transpose()?`. -/
def optI32 (f : Option Str) : Except TpErr (Option Int) :=
  match f with
  | none => .ok none
  | some s =>
    match i32ParseE s with
    | .ok n => .ok (some n)
    | .error e => .error (.number e)

/-- the time-signature field: kept at 4/4 when absent or when its first character is `'0'`. -/
def parseTimeSignature (f : Option Str) : Except TpErr TimeSignature :=
  match f with
  | none => .ok TimeSignature.simpleQuadruple
  | some next =>
    if next.head? == some '0' then .ok TimeSignature.simpleQuadruple
    else
      match i32ParseE next with
      | .error e => .error (.number e)
      | .ok n =>
        match TimeSignature.new n with
        | some ts => .ok ts
        | none => .error .timeSignature

/-- the effect-flags field: `next.parse::<EffectFlags>()` is `i32::from_str` **without** trimming. -/
def parseEffectFlags (f : Option Str) : Except TpErr (Bool × Bool) :=
  match f with
  | none => .ok (false, false)
  | some next =>
    match i32FromStr next with
    | some n => .ok (flagKiai n, flagOmitFirstBarLine n)
    | none => .error .effectFlags

/-- `beat_len`: the manual `trim().parse::<f64>()` that lets NaN through, then the two range tests
against `f64::from(∓MAX_PARSE_VALUE)`. -/
def parseBeatLen (s : Str) : Except TpErr F :=
  match (Scalar.parse (trim s) : Option F) with
  | none => .error (.number .invalidFloat)
  | some b =>
    if Scalar.lt b (Scalar.ofInt (-i32Max) : F) then .error (.number .underflow)
    else if Scalar.lt (Scalar.ofInt i32Max : F) b then .error (.number .overflow)
    else .ok b

/-- `parse_timing_points` from `line.trim_comment().split(',')` up to (excluding) the NaN test:
every field with its default, in the order the Rust evaluates (and fails on) them. -/
def parseTpRaw (g : GeneralState F P) (fields : List Str) : Except TpErr (TpLine F) :=
  match fields with
  | timeS :: beatS :: rest =>
    match (scalarParse timeS : Except NumErr F) with
    | .error e => .error (.number e)
    | .ok time =>
    match (parseBeatLen beatS : Except TpErr F) with
    | .error e => .error e
    | .ok beatLen =>
    let speedMultiplier : F := if Scalar.lt beatLen (0 : F) then (100 : F) / (-beatLen) else 1
    match parseTimeSignature rest[0]? with
    | .error e => .error e
    | .ok timeSignature =>
    match optI32 rest[1]? with
    | .error e => .error e
    | .ok sampleSetN =>
    let sampleSet := (sampleSetN.bind SampleBank.ofInt).getD g.defaultSampleBank
    match optI32 rest[2]? with
    | .error e => .error e
    | .ok customN =>
    match optI32 rest[3]? with
    | .error e => .error e
    | .ok volumeN =>
    let timingChange := match rest[4]? with
      | none => true
      | some next => next.head? == some '1'
    match parseEffectFlags rest[5]? with
    | .error e => .error e
    | .ok flags =>
    .ok { time := time, beatLen := beatLen, speedMultiplier := speedMultiplier,
          timeSignature := timeSignature,
          sampleSet := if sampleSet == SampleBank.none then SampleBank.normal else sampleSet,
          customSampleBank := customN.getD 0,
          sampleVolume := volumeN.getD g.defaultSampleVolume,
          timingChange := timingChange, kiai := flags.1, omitFirstBarLine := flags.2 }
  | _ => .error .invalidLine

/-- the last `?` of `parse_timing_points`: a timing change must not have a NaN beat length. -/
def checkNaN (l : TpLine F) : Except TpErr (TpLine F) :=
  if l.timingChange && Scalar.isNaN l.beatLen then .error .timingControlPointNaN else .ok l

/-- everything `parse_timing_points` does before it touches the state. -/
def parseTpFields (g : GeneralState F P) (line : Str) : Except TpErr (TpLine F) :=
  match parseTpRaw g (splitOn ',' (trimComment line)) with
  | .error e => .error e
  | .ok l => checkNaN l

/-- the four points a line contributes. -/
def TpLine.timingPoint (l : TpLine F) : TimingPoint F :=
  TimingPoint.new l.time l.beatLen l.omitFirstBarLine l.timeSignature
def TpLine.difficultyPoint (l : TpLine F) : DifficultyPoint F :=
  DifficultyPoint.new l.time l.beatLen l.speedMultiplier
def TpLine.samplePoint (l : TpLine F) : SamplePoint F :=
  SamplePoint.new l.time l.sampleSet l.sampleVolume l.customSampleBank
/-- `EffectPoint::new`, then `scroll_speed = speed_multiplier.clamp(0.01, 10.0)` in taiko / mania only. -/
def TpLine.effectPoint (mode : GameMode) (l : TpLine F) : EffectPoint F :=
  let e : EffectPoint F := EffectPoint.new l.time l.kiai
  if mode == GameMode.taiko || mode == GameMode.mania then
    { e with scrollSpeed := Scalar.clamp l.speedMultiplier (0.01 : F) (10 : F) }
  else e

/-- the mutating tail of `parse_timing_points`: timing (only for a timing change), difficulty,
sample, effect — in this order — then `pending_control_points_time = time`. -/
def applyTpLine (st : TimingPointsState F P) (l : TpLine F) : TimingPointsState F P :=
  let st := if l.timingChange then addTimingCP st l.time l.timingPoint l.timingChange else st
  let st := addDifficultyCP st l.time l.difficultyPoint l.timingChange
  let st := addSampleCP st l.time l.samplePoint l.timingChange
  let st := addEffectCP st l.time (l.effectPoint st.general.mode) l.timingChange
  { st with pendingTime := l.time }

/-- `<TimingPoints as DecodeBeatmap>::parse_timing_points`. -/
def parseTimingPoints (st : TimingPointsState F P) (line : Str) :
    Except TpErr Unit × TimingPointsState F P :=
  match parseTpFields st.general line with
  | .error e => (.error e, st)
  | .ok l => (.ok (), applyTpLine st l)

/-- `<TimingPoints as DecodeBeatmap>::parse_general`. -/
def TimingPointsState.parseGeneral (st : TimingPointsState F P) (line : Str) :
    Except TpErr Unit × TimingPointsState F P :=
  match Rosu.parseGeneral st.general line with
  | (.ok (), g) => (.ok (), { st with general := g })
  | (.error e, g) => (.error (.general e), { st with general := g })

/-- `From<TimingPointsState> for TimingPoints`: flush, then project. -/
def TimingPointsState.finish (st : TimingPointsState F P) : GeneralState F P × ControlPoints F :=
  let st := flushPendingPoints st
  (st.general, st.controlPoints)

end
end Rosu
