/-
  Model/Curve.lean — src/section/hit_objects/slider/curve.rs and path.rs, function by function.

  Generic over the arithmetic (`P` = f32 side, `F` = f64 side, DESIGN.md 3.3); no law is used here.
  Conventions of this file:
  * `CurveBuffers` is threaded explicitly **with its stale contents**: nothing is cleared unless the
    Rust clears it (F7 — `calculate_path` used to return before `path.clear()` on empty input — is repaired
    in /repo c94e1fc and the model mirrors the repaired order).
  * Every indexing / slicing / `usize` subtraction that can panic in Rust is an explicit read that
    yields `CErr.panic` when out of range (`getI`, `setI`, `sliceTo`, `usub`), so index safety is a
    theorem and not a convention. The harness is built with overflow checks, hence `usub`.
  * Functions whose only effect on `path` is `push`/`extend` (`approximate_*`, `catmull_subpath`,
    `bezier_approximate`) return the pushed suffix; the caller appends it. `calculate_path` performs the
    `rotate_left(1)` + `pop()` de-duplication on the real vector.
  * Loops bounded by arithmetic take fuel (`approximateBspline`, `thetaLoop`); fuel exhaustion is the
    distinct outcome `CErr.fuel`.
-/
import RosuModel.Model.Basic
namespace Rosu

/-- outcome of a Rust panic (`panic`) or of running out of model fuel (`fuel`). -/
inductive CErr | panic | fuel
  deriving DecidableEq, Repr

abbrev Outcome := Except CErr

/-- `l[i]` -/
def getI {α : Type} (l : List α) (i : Nat) : Outcome α :=
  match l[i]? with
  | some x => pure x
  | none => throw .panic

/-- `l[i] = x` -/
def setI {α : Type} (l : List α) (i : Nat) (x : α) : Outcome (List α) :=
  if i < l.length then pure (l.set i x) else throw .panic

/-- `&l[..n]` -/
def sliceTo {α : Type} (l : List α) (n : Nat) : Outcome (List α) :=
  if n ≤ l.length then pure (l.take n) else throw .panic

/-- `&l[a..n]` -/
def sliceFromTo {α : Type} (l : List α) (a n : Nat) : Outcome (List α) :=
  if a ≤ n ∧ n ≤ l.length then pure ((l.take n).drop a) else throw .panic

/-- `&l[a..=i]` -/
def sliceIncl {α : Type} (l : List α) (a i : Nat) : Outcome (List α) :=
  if a ≤ i + 1 ∧ i + 1 ≤ l.length then pure ((l.drop a).take (i + 1 - a)) else throw .panic

/-- `a - b` on `usize` with overflow checks. -/
def usub (a b : Nat) : Outcome Nat :=
  if b ≤ a then pure (a - b) else throw .panic

/-- `dst[..n].copy_from_slice(&src[..n])` -/
def copyPrefix {α : Type} (dst src : List α) (n : Nat) : Outcome (List α) :=
  if n ≤ dst.length ∧ n ≤ src.length then pure (src.take n ++ dst.drop n) else throw .panic

/-- `dst.copy_from_slice(src)` (panics when the lengths differ). -/
def copyFromSlice {α : Type} (dst src : List α) : Outcome (List α) :=
  if dst.length = src.length then pure src else throw .panic

/-- `slice.rotate_left(1)` -/
def rotateLeft1 {α : Type} : List α → List α
  | [] => []
  | a :: t => t ++ [a]

structure BezierBuffers (P : Type) where
  left : List (Pos P) := []
  right : List (Pos P) := []
  midpoints : List (Pos P) := []
  leftChild : List (Pos P) := []

/-- `CurveBuffers` (`Default` = all empty). -/
structure CurveBuffers (P F : Type) where
  path : List (Pos P) := []
  lengths : List F := []
  vertices : List (Pos P) := []
  bezier : BezierBuffers P := {}

/-- `Curve` / `BorrowedCurve`: what `path()` and `lengths()` show. -/
structure Curve (P F : Type) where
  path : List (Pos P)
  lengths : List F

section
variable {P F : Type} [Scalar P] [Scalar F] [Cvt P F] [Trig F] [Trig P]

/-- `BezierBuffers::extend_exact` -/
def BezierBuffers.extendExact (b : BezierBuffers P) (len : Nat) : BezierBuffers P :=
  if len ≤ b.left.length then b
  else
    let additional := len - b.left.length
    let pad : List (Pos P) := List.replicate additional Pos.zero
    { left := b.left ++ pad, right := b.right ++ pad, midpoints := b.midpoints ++ pad,
      leftChild := b.leftChild ++ pad }

namespace Curve

/-! ### position queries -/

/-- `dist` -/
def dist (lengths : List F) : F :=
  match lengths.getLast? with
  | some x => x
  | none => 0

/-- `progress_to_dist` -/
def progressToDist (lengths : List F) (progress : F) : F :=
  Scalar.clamp progress 0 1 * dist lengths

/-- `Ordering` of `len.partial_cmp(&d).unwrap_or(Equal)`: `lt` = Less, `gt` = Greater. -/
def cmpLen (len d : F) : Ordering :=
  if Scalar.lt len d then .lt else if Scalar.lt d len then .gt else .eq

/-- the `while size > 1` loop of `slice::binary_search_by` (core 1.95): returns `base`.
`fuel` is the initial `size`; `size` at least halves... strictly decreases each round. -/
def bsLoop (lengths : List F) (d : F) : Nat → Nat → Nat → Nat
  | 0, base, _ => base
  | fuel + 1, base, size =>
    if size > 1 then
      let half := size / 2
      let mid := base + half
      let cmp := cmpLen (lengths.getD mid 0) d
      let base := if cmp == .gt then base else mid
      bsLoop lengths d fuel base (size - half)
    else base

/-- `idx_of_dist`: `binary_search_by(..).map_or_else(identity, identity)` with std's probing sequence
(`get_unchecked` reads are in range, theorem `C19.bs_probe_in_range`). -/
def idxOfDist (lengths : List F) (d : F) : Nat :=
  let size := lengths.length
  if size = 0 then 0
  else
    let base := bsLoop lengths d size 0 size
    let cmp := cmpLen (lengths.getD base 0) d
    if cmp == .eq then base else base + (if cmp == .lt then 1 else 0)

/-- `interpolate_vertices` -/
def interpolateVertices (path : List (Pos P)) (lengths : List F) (i : Nat) (d : F) : Outcome (Pos P) :=
  if path.isEmpty then pure Pos.zero
  else if i = 0 then getI path 0
  else
    match path[i]? with
    | none => do getI path (← usub path.length 1)
    | some p1 => do
      let p0 ← getI path (i - 1)
      let d0 ← getI lengths (i - 1)
      let d1 ← getI lengths i
      if Scalar.le (Scalar.abs (d0 - d1)) (Scalar.eps : F) then pure p0
      else
        let w := (d - d0) / (d1 - d0)
        pure (p0 + (p1 - p0).smul (Cvt.down w))

/-- `position_at` -/
def positionAt (path : List (Pos P)) (lengths : List F) (progress : F) : Outcome (Pos P) :=
  let d := progressToDist lengths progress
  let i := idxOfDist lengths d
  interpolateVertices path lengths i d

/-! ### Bezier -/

/-- `bezier_is_flat_enough` -/
def bezierIsFlatEnough : List (Pos P) → Bool
  | prev :: curr :: next :: rest =>
    let limit : P := (0.25 : P) * (0.25 : P) * (4 : P)
    if Scalar.lt limit (Pos.lengthSquared (prev - curr.smul (2 : P) + next)) then false
    else bezierIsFlatEnough (curr :: next :: rest)
  | _ => true

/-- inner loop of `bezier_subdivide`: `for j in 0..i { midpoints[j] = (midpoints[j] + midpoints[j+1]) / 2.0 }`,
called as `subdivInner i 0`. -/
def subdivInner : Nat → Nat → List (Pos P) → Outcome (List (Pos P))
  | 0, _, mid => pure mid
  | rem + 1, j, mid => do
    let a ← getI mid j
    let b ← getI mid (j + 1)
    let mid ← setI mid j ((a + b).sdiv (2 : P))
    subdivInner rem (j + 1) mid

/-- outer loop of `bezier_subdivide`: `for i in (1..count).rev()`, called with `i = count - 1`. -/
def subdivOuter (count : Nat) : Nat → List (Pos P) × List (Pos P) × List (Pos P) →
    Outcome (List (Pos P) × List (Pos P) × List (Pos P))
  | 0, st => pure st
  | i + 1, (l, r, mid) => do
    let m0 ← getI mid 0
    let l ← setI l (← usub (← usub count (i + 1)) 1) m0
    let mi ← getI mid (i + 1)
    let r ← setI r (i + 1) mi
    let mid ← subdivInner (i + 1) 0 mid
    subdivOuter count i (l, r, mid)

/-- `bezier_subdivide(points, l, r, midpoints)`; returns `(l, r, midpoints)`. -/
def bezierSubdivide (points l r mid : List (Pos P)) :
    Outcome (List (Pos P) × List (Pos P) × List (Pos P)) := do
  let count := points.length
  let mid ← copyPrefix mid points count
  let (l, r, mid) ← subdivOuter count (count - 1) (l, r, mid)
  let m0 ← getI mid 0
  let l ← setI l (← usub count 1) m0
  let r ← setI r 0 m0
  pure (l, r, mid)

/-- the `skip(1) / skip(2) / skip(3)` zip with `step_by(2)` of `bezier_approximate`, on `chain.skip(1)`. -/
def approxTriples : List (Pos P) → List (Pos P)
  | prev :: curr :: next :: rest =>
    (prev + curr.smul (2 : P) + next).smul (0.25 : P) :: approxTriples (next :: rest)
  | _ => []

/-- `bezier_approximate(points, path, l, r, midpoints)`; returns the pushed points and `(l, r, midpoints)`. -/
def bezierApproximate (points l r mid : List (Pos P)) :
    Outcome (List (Pos P) × List (Pos P) × List (Pos P) × List (Pos P)) := do
  let count := points.length
  let (l, r, mid) ← bezierSubdivide points l r mid
  let p0 ← getI points 0
  let ls ← sliceTo l count
  let rs ← sliceFromTo r 1 count
  pure (p0 :: approxTriples ((ls ++ rs).drop 1), l, r, mid)

/-- state of the `while let Some(parent) = to_flatten.pop()` loop. `stack` head = top of `to_flatten`,
`free` head = top of `free_bufs`. -/
structure BsplineState (P : Type) where
  stack : List (List (Pos P))
  free : List (List (Pos P))
  bufs : BezierBuffers P

/-- the loop of `approximate_bspline`; returns the pushed points and the buffers. -/
def bsplineLoop (p : Nat) : Nat → BsplineState P → Outcome (List (Pos P) × BezierBuffers P)
  | 0, st => match st.stack with
    | [] => pure ([], st.bufs)
    | _ => throw .fuel
  | fuel + 1, st =>
    match st.stack with
    | [] => pure ([], st.bufs)
    | parent :: stack =>
      if bezierIsFlatEnough parent then do
        let (piece, l, r, mid) ← bezierApproximate parent st.bufs.left st.bufs.right st.bufs.midpoints
        let (rest, bufs) ← bsplineLoop p fuel
          { stack := stack, free := parent :: st.free,
            bufs := { st.bufs with left := l, right := r, midpoints := mid } }
        pure (piece ++ rest, bufs)
      else do
        let (rightChild, free) := match st.free with
          | f :: free => (f, free)
          | [] => (List.replicate p (Pos.zero : Pos P), [])
        let (lc, rightChild, mid) ← bezierSubdivide parent st.bufs.leftChild rightChild st.bufs.midpoints
        let parent ← copyFromSlice parent (← sliceTo lc p)
        bsplineLoop p fuel
          { stack := parent :: rightChild :: stack, free := free,
            bufs := { st.bufs with leftChild := lc, midpoints := mid } }

/-- `approximate_bspline` -/
def approximateBspline (fuel : Nat) (points : List (Pos P)) (bufs : BezierBuffers P) :
    Outcome (List (Pos P) × BezierBuffers P) := do
  let p := points.length
  let (out, bufs) ← bsplineLoop p fuel { stack := [points], free := [], bufs := bufs }
  let last ← getI points (← usub p 1)
  pure (out ++ [last], bufs)

/-- `approximate_bezier` -/
def approximateBezier (fuel : Nat) (points : List (Pos P)) (bufs : BezierBuffers P) :
    Outcome (List (Pos P) × BezierBuffers P) :=
  approximateBspline fuel points (bufs.extendExact points.length)

/-! ### Catmull -/

/-- one of the two points the closure of `catmull_subpath` emits. -/
def catmullPoint (x1 x2 x3 x4 y1 y2 y3 y4 t1 : P) : Pos P :=
  let t2 := t1 * t1
  let t3 := t2 * t1
  ⟨(0.5 : P) * (x1 + x2 * t1 + x3 * t2 + x4 * t3), (0.5 : P) * (y1 + y2 * t1 + y3 * t2 + y4 * t3)⟩

/-- `catmull_subpath` -/
def catmullSubpath (v1 v2 v3 v4 : Pos P) : List (Pos P) :=
  let x1 := (2 : P) * v2.x
  let x2 := (-v1.x) + v3.x
  let x3 := (2 : P) * v1.x - (5 : P) * v2.x + (4 : P) * v3.x - v4.x
  let x4 := (-v1.x) + (3 : P) * (v2.x - v3.x) + v4.x
  let y1 := (2 : P) * v2.y
  let y2 := (-v1.y) + v3.y
  let y3 := (2 : P) * v1.y - (5 : P) * v2.y + (4 : P) * v3.y - v4.y
  let y4 := (-v1.y) + (3 : P) * (v2.y - v3.y) + v4.y
  let detail : P := Scalar.ofNat 50
  (List.range 50).flatMap fun c =>
    let c : P := Scalar.ofNat c
    [catmullPoint x1 x2 x3 x4 y1 y2 y3 y4 (c / detail),
     catmullPoint x1 x2 x3 x4 y1 y2 y3 y4 ((c + (1 : P)) / detail)]

/-- `v * 2.0 - w` -/
def extrapolate (v w : Pos P) : Pos P := v.smul (2 : P) - w

/-- body of the "remaining iterations" loop of `approximate_catmull`. -/
def catmullRest (points : List (Pos P)) : List (Nat × (Pos P × Pos P)) → List (Pos P)
  | [] => []
  | (i, (v1, v2)) :: rest =>
    let v3 := match points[i]? with | some v => v | none => extrapolate v2 v1
    let v4 := match points[i + 1]? with | some v => v | none => extrapolate v3 v2
    catmullSubpath v1 v2 v3 v4 ++ catmullRest points rest

/-- `approximate_catmull` -/
def approximateCatmull (points : List (Pos P)) : Outcome (List (Pos P)) :=
  if points.length = 1 then pure []
  else do
    let _ ← usub points.length 1
    let v1 ← getI points 0
    let v2 := v1
    let v3 := match points[1]? with | some v => v | none => v2
    let v4 := match points[2]? with | some v => v | none => extrapolate v3 v2
    let first := catmullSubpath v1 v2 v3 v4
    let idxs := List.range' 2 (points.length - 2)
    pure (first ++ catmullRest points (idxs.zip (points.zip (points.drop 1))))

/-- state of the osu!-mode simplification loop in `calculate_subpath`. -/
structure SimpState (P F : Type) where
  out : List (Pos P)
  lastStart : Option (Pos P)
  lenRemoved : F
  optLen : F

/-- one iteration of `for (i, curr) in sub_path.iter().copied().enumerate()`; `prev` is `sub_path[i - 1]`
(the iteration with `i = 0` always takes the `None` arm, so the index is never `0 - 1`). -/
def simplifyStep (n : Nat) (st : SimpState P F) (i : Nat) (prev curr : Pos P) : SimpState P F :=
  match st.lastStart with
  | none => { st with out := st.out ++ [curr], lastStart := some curr }
  | some ls =>
    let distFromStart : F := Cvt.up (Pos.distance F ls curr)
    let lenRemoved := st.lenRemoved + Cvt.up (Pos.distance F prev curr)
    if Scalar.lt (6 : F) distFromStart || (i + 1) % 100 == 0 || i == n - 1 then
      { out := st.out ++ [curr], optLen := st.optLen + (lenRemoved - distFromStart),
        lastStart := none, lenRemoved := 0 }
    else { st with lenRemoved := lenRemoved }

def simplifyLoop (n : Nat) : SimpState P F → Nat → Pos P → List (Pos P) → SimpState P F
  | st, _, _, [] => st
  | st, i, prev, curr :: rest => simplifyLoop n (simplifyStep n st i prev curr) (i + 1) curr rest

/-- the osu!-mode Catmull simplification of `calculate_subpath`: returns the pushed points and the new
`optimized_len`. -/
def catmullSimplify (subPath : List (Pos P)) (optLen : F) : List (Pos P) × F :=
  let st := simplifyLoop subPath.length
    { out := [], lastStart := none, lenRemoved := 0, optLen := optLen } 0 Pos.zero subPath
  (st.out, st.optLen)

/-! ### circular arc -/

structure ArcProps (P F : Type) where
  thetaStart : F
  thetaRange : F
  direction : F
  radius : P
  centre : Pos P

/-- `while theta_end < theta_start { theta_end += 2.0 * PI }` -/
def thetaLoop : Nat → F → F → Outcome F
  | 0, te, ts => if Scalar.lt te ts then throw .fuel else pure te
  | n + 1, te, ts => if Scalar.lt te ts then thetaLoop n (te + (2 : F) * Trig.pi) ts else pure te

/-- `circular_arc_properties` -/
def circularArcProperties (fuel : Nat) (a b c : Pos P) : Outcome (Option (ArcProps P F)) :=
  if Scalar.le (Scalar.abs ((b.y - a.y) * (c.x - a.x) - (b.x - a.x) * (c.y - a.y))) (Scalar.eps : P) then
    pure none
  else do
    let d := (2 : P) * (a.x * (b - c).y + b.x * (c - a).y + c.x * (a - b).y)
    -- `if d == 0.0 { return None; }` (repair of F19)
    if Scalar.eq d (0 : P) then pure none else
    let aSq := a.lengthSquared
    let bSq := b.lengthSquared
    let cSq := c.lengthSquared
    let centre : Pos P :=
      ⟨(aSq * (b - c).y + bSq * (c - a).y + cSq * (a - b).y) / d,
       (aSq * (c - b).x + bSq * (a - c).x + cSq * (b - a).x) / d⟩
    let dA := a - centre
    let dC := c - centre
    let radius := Pos.length F dA
    let thetaStart : F := Trig.atan2 (Cvt.up dA.y) (Cvt.up dA.x)
    let thetaEnd0 : F := Trig.atan2 (Cvt.up dC.y) (Cvt.up dC.x)
    let thetaEnd ← thetaLoop fuel thetaEnd0 thetaStart
    let direction : F := 1
    let thetaRange := thetaEnd - thetaStart
    let ac := c - a
    let ortho : Pos P := ⟨ac.y, -ac.x⟩
    if Scalar.lt (ortho.dot (b - a)) (0 : P) then
      pure (some { thetaStart, thetaRange := (2 : F) * Trig.pi - thetaRange, direction := -direction, radius, centre })
    else
      pure (some { thetaStart, thetaRange, direction, radius, centre })

/-- number of sub-points of `approximate_circular_arc`. -/
def arcSubPoints (pr : ArcProps P F) : Nat :=
  if Scalar.le ((2 : P) * pr.radius) (0.1 : P) then 2
  else
    let divisor : P := (2 : P) * Trig.acos ((1 : P) - ((0.1 : P) / pr.radius))
    if Scalar.le (Scalar.abs divisor) (Scalar.eps : P) then 2
    else Nat.max (Scalar.toUsize (Scalar.ceil (pr.thetaRange / (Cvt.up divisor : F)))) 2

/-- `approximate_circular_arc`: `none` = `false` (nothing pushed). -/
def approximateCircularArc (fuel : Nat) (a b c : Pos P) : Outcome (Option (List (Pos P))) := do
  match (← circularArcProperties (F := F) fuel a b c) with
  | none => pure none
  | some pr =>
    let subPoints := arcSubPoints pr
    if subPoints ≥ 1000 then pure none
    else do
      let divisor : F := Scalar.ofNat (← usub subPoints 1)
      let directedRange := pr.direction * pr.thetaRange
      pure (some ((List.range subPoints).map fun i =>
        let fract : F := Scalar.ofNat i / divisor
        let theta := pr.thetaStart + fract * directedRange
        let origin : Pos P := ⟨Cvt.down (Trig.cos theta), Cvt.down (Trig.sin theta)⟩
        pr.centre + origin.smul pr.radius))

/-! ### path and length -/

/-- `calculate_subpath`: returns the points pushed to `path`, `optimized_len` and the Bezier buffers. -/
def calculateSubpath (fuel : Nat) (mode : GameMode) (subPoints : List (Pos P)) (kind : SplineType)
    (optLen : F) (bufs : BezierBuffers P) : Outcome (List (Pos P) × F × BezierBuffers P) :=
  match kind with
  | .linear => pure (subPoints, optLen, bufs)
  | .perfectCurve => do
    let arc ← match subPoints with
      | [a, b, c] => approximateCircularArc (F := F) fuel a b c
      | _ => pure none
    match arc with
    | some pts => pure (pts, optLen, bufs)
    | none =>
      let (out, bufs) ← approximateBezier fuel subPoints bufs
      pure (out, optLen, bufs)
  | .catmull => do
    let sub ← approximateCatmull subPoints
    if mode ≠ .osu then pure (sub, optLen, bufs)
    else
      let (out, optLen) := catmullSimplify sub optLen
      pure (out, optLen, bufs)
  | .bspline => do
    let (out, bufs) ← approximateBezier fuel subPoints bufs
    pure (out, optLen, bufs)

/-- loop state of `calculate_path`. -/
structure SegState (P F : Type) where
  path : List (Pos P)
  optLen : F
  bezier : BezierBuffers P
  start : Nat

/-- the `skip_first` de-duplication: `path[path_len..].rotate_left(1); path.pop()`. -/
def dedupJoint (path : List (Pos P)) (pathLen : Nat) : Outcome (List (Pos P)) := do
  let skipFirst ← match (if pathLen ≥ 1 then some (pathLen - 1) else none), path[pathLen]? with
    | some idx, some first => do
      let prev ← getI path idx
      pure (Pos.eq prev first)
    | _, _ => pure false
  if skipFirst then pure (path.take pathLen ++ rotateLeft1 (path.drop pathLen)).dropLast
  else pure path

/-- body of `for i in 0..points.len()` in `calculate_path`. -/
def segBody (fuel : Nat) (mode : GameMode) (points : List (PathControlPoint P)) (vertices : List (Pos P))
    (st : SegState P F) (i : Nat) : Outcome (SegState P F) := do
  let pt ← getI points i
  if pt.pathType.isNone && decide (i < points.length - 1) then pure st
  else
    let seg ← sliceIncl vertices st.start i
    match seg with
    | [] => throw .panic
    | [v] => pure { st with path := st.path ++ [v], start := i }
    | _ =>
      let sp ← getI points st.start
      let kind := match sp.pathType with | none => SplineType.linear | some t => t.kind
      let pathLen := st.path.length
      let (out, optLen, bez) ← calculateSubpath fuel mode seg kind st.optLen st.bezier
      let path ← dedupJoint (st.path ++ out) pathLen
      pure { path, optLen, bezier := bez, start := i }

/-- `calculate_path`: returns the buffers and `optimized_len` (which `Curve::new` initialises to `0.0`).
`path.clear()` and `*optimized_len = 0.0` happen **before** the early return for an empty list (F7, repaired
in /repo c94e1fc); `vertices` and the Bezier scratch keep their stale contents in that case. -/
def calculatePath (fuel : Nat) (mode : GameMode) (points : List (PathControlPoint P))
    (bufs : CurveBuffers P F) : Outcome (CurveBuffers P F × F) :=
  if points.isEmpty then pure ({ bufs with path := [] }, 0)
  else do
    let vertices := points.map (·.pos)
    let st ← (List.range points.length).foldlM (segBody fuel mode points vertices)
      { path := [], optLen := (0 : F), bezier := bufs.bezier, start := 0 }
    pure ({ bufs with path := st.path, vertices := vertices, bezier := st.bezier }, st.optLen)

/-- the `length_iter` of `calculate_length`: pushed cumulative lengths, and the final `calculated_len`. -/
def cumLens (cl : F) : List (Pos P) → List F × F
  | [] => ([], cl)
  | [_] => ([], cl)
  | curr :: next :: rest =>
    let c := cl + Cvt.up (Pos.length F (next - curr))
    let r := cumLens c (next :: rest)
    (c :: r.1, r.2)

/-- `matches!(path, [.., a, b] if a == b)` -/
def lastTwoEqual : List (Pos P) → Bool
  | [a, b] => Pos.eq a b
  | _ :: t => lastTwoEqual t
  | [] => false

/-- `cumulative_len.iter().rev().position(|l| *l < expected).map_or(0, |idx| len - idx)` -/
def lastValid (lengths : List F) (expected : F) : Nat :=
  match lengths.reverse.findIdx? (fun l => Scalar.lt l expected) with
  | none => 0
  | some idx => lengths.length - idx

/-- `calculate_length` on `(path, lengths)`; the stale `lengths` are cleared first, so only `path` is read. -/
def calculateLength (path : List (Pos P)) (expected : Option F) (optLen : F) :
    Outcome (List (Pos P) × List F) :=
  let r := cumLens optLen path
  let lens : List F := (0 : F) :: r.1
  let cl := r.2
  match expected with
  | none => pure (path, lens)
  | some L =>
    if !(Scalar.ge (Scalar.abs (cl - L)) (Scalar.eps : F)) then pure (path, lens)
    else if lastTwoEqual path && Scalar.gt L cl then pure (path, lens ++ [cl])
    else if lens.length = 1 then pure (path, lens)
    else
      let lens := lens.dropLast
      let lv := lastValid lens L
      let trunc := decide (lv < lens.length)
      let lens := if trunc then lens.take lv else lens
      let path := if trunc then path.take (lv + 1) else path
      if trunc && lens.isEmpty then pure (path, [(0 : F)])
      else do
        let endIdx := lens.length
        let prevIdx ← usub endIdx 1
        let pe ← getI path endIdx
        let pp ← getI path prevIdx
        let dir := Pos.normalize F (pe - pp)
        let lp ← getI lens prevIdx
        let path ← setI path endIdx (pp + dir.smul (Cvt.down (L - lp)))
        pure (path, lens ++ [L])

/-- `calculate_path` followed by `calculate_length`: the buffers as both constructors leave them before
building the result. -/
def compute (fuel : Nat) (mode : GameMode) (points : List (PathControlPoint P)) (expected : Option F)
    (bufs : CurveBuffers P F) : Outcome (CurveBuffers P F) := do
  let (bufs, optLen) ← calculatePath fuel mode points bufs
  let (path, lens) ← calculateLength bufs.path expected optLen
  pure { bufs with path := path, lengths := lens }

/-- `Curve::new`: `mem::take`s `path` and `lengths` out of the buffers. -/
def new (fuel : Nat) (mode : GameMode) (points : List (PathControlPoint P)) (expected : Option F)
    (bufs : CurveBuffers P F) : Outcome (Curve P F × CurveBuffers P F) := do
  let b ← compute fuel mode points expected bufs
  pure ({ path := b.path, lengths := b.lengths }, { b with path := [], lengths := [] })

/-- `BorrowedCurve::new`: a view of the buffers, which keep `path` and `lengths`. -/
def newBorrowed (fuel : Nat) (mode : GameMode) (points : List (PathControlPoint P)) (expected : Option F)
    (bufs : CurveBuffers P F) : Outcome (Curve P F × CurveBuffers P F) := do
  let b ← compute fuel mode points expected bufs
  pure ({ path := b.path, lengths := b.lengths }, b)

end Curve

/-! ### `SliderPath` (path.rs) -/

structure SliderPath (P F : Type) where
  mode : GameMode
  controlPoints : List (PathControlPoint P)
  expectedDist : Option F
  curve : Option (Curve P F) := none

namespace SliderPath

/-- `SliderPath::new` -/
def new (mode : GameMode) (cps : List (PathControlPoint P)) (L : Option F) : SliderPath P F :=
  { mode := mode, controlPoints := cps, expectedDist := L, curve := none }

/-- `SliderPath::curve_with_bufs` -/
def curveWithBufs (fuel : Nat) (sp : SliderPath P F) (bufs : CurveBuffers P F) :
    Outcome (Curve P F × SliderPath P F × CurveBuffers P F) :=
  match sp.curve with
  | some c => pure (c, sp, bufs)
  | none => do
    let (c, bufs) ← Curve.new fuel sp.mode sp.controlPoints sp.expectedDist bufs
    pure (c, { sp with curve := some c }, bufs)

/-- `SliderPath::curve` (fresh `CurveBuffers::default()`). -/
def getCurve (fuel : Nat) (sp : SliderPath P F) : Outcome (Curve P F × SliderPath P F) := do
  let (c, sp, _) ← curveWithBufs fuel sp {}
  pure (c, sp)

/-- `SliderPath::borrowed_curve`: does not store. -/
def borrowedCurve (fuel : Nat) (sp : SliderPath P F) (bufs : CurveBuffers P F) :
    Outcome (Curve P F × CurveBuffers P F) :=
  match sp.curve with
  | some c => pure (c, bufs)
  | none => Curve.newBorrowed fuel sp.mode sp.controlPoints sp.expectedDist bufs

/-- `SliderPath::clear_curve` -/
def clearCurve (sp : SliderPath P F) : SliderPath P F := { sp with curve := none }

/-- `*sp.control_points_mut() = f(old)` -/
def controlPointsMut (sp : SliderPath P F) (f : List (PathControlPoint P) → List (PathControlPoint P)) :
    SliderPath P F :=
  let sp := sp.clearCurve
  { sp with controlPoints := f sp.controlPoints }

/-- `*sp.expected_dist_mut() = g(old)` -/
def expectedDistMut (sp : SliderPath P F) (g : Option F → Option F) : SliderPath P F :=
  let sp := sp.clearCurve
  { sp with expectedDist := g sp.expectedDist }

end SliderPath
end

end Rosu
