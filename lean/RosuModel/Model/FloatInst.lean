/-
  Model/FloatInst.lean — the IEEE-754 instances the driver runs: `Float` (binary64) and
  `Float32` (binary32), with Rust's `FromStr`/`Display` supplied by Model/FloatCodec.lean.
  Lean's `Float`/`Float32` operations are the C `double`/`float` operations (opaque to the kernel).
-/
import RosuModel.Model.Scalar
import RosuModel.Model.FloatCodec
namespace Rosu

def f64TotalKey (x : Float) : Int :=
  let b := x.toBits.toNat
  if b < 2 ^ 63 then (b : Int) else -((b - 2 ^ 63 : Nat) : Int) - 1

def f32TotalKey (x : Float32) : Int :=
  let b := x.toBits.toNat
  if b < 2 ^ 31 then (b : Int) else -((b - 2 ^ 31 : Nat) : Int) - 1

instance : Scalar Float where
  ofNat n := Float.ofNat n
  ofSci m s e := Float.ofScientific m s e
  lt a b := a < b
  le a b := a ≤ b
  eq a b := a == b
  isNaN := Float.isNaN
  abs := Float.abs
  sqrt := Float.sqrt
  ceil := Float.ceil
  eps := Float.ofBits 0x3CB0000000000000
  ofInt := Float.ofInt
  toI32 x := x.toInt32.toInt
  toUsize x := x.toUSize.toNat
  totalKey := f64TotalKey
  parse s := (parseBits fmt64 s).map fun b => Float.ofBits (UInt64.ofNat b)
  print x := printBits fmt64 x.toBits.toNat

instance : Scalar Float32 where
  ofNat n := Float32.ofNat n
  ofSci m s e := Float32.ofScientific m s e
  lt a b := a < b
  le a b := a ≤ b
  eq a b := a == b
  isNaN := Float32.isNaN
  abs := Float32.abs
  sqrt := Float32.sqrt
  ceil := Float32.ceil
  eps := Float32.ofBits 0x34000000
  ofInt := Float32.ofInt
  toI32 x := x.toInt32.toInt
  toUsize x := x.toUSize.toNat
  totalKey := f32TotalKey
  parse s := (parseBits fmt32 s).map fun b => Float32.ofBits (UInt32.ofNat b)
  print x := printBits fmt32 x.toBits.toNat

instance : Trig Float where
  sin := Float.sin
  cos := Float.cos
  acos := Float.acos
  atan2 := Float.atan2
  pi := Float.ofBits 0x400921FB54442D18

instance : Cvt Float32 Float where
  up := Float32.toFloat
  down := Float.toFloat32

def hex64 (x : Float) : String := String.ofList (Nat.toDigits 16 x.toBits.toNat)
def hex32 (x : Float32) : String := String.ofList (Nat.toDigits 16 x.toBits.toNat)

end Rosu
