/-
  Model/FloatInst.lean — the IEEE-754 instances the driver runs: `Float` (binary64) and
  `Float32` (binary32), with Rust's `FromStr`/`Display` supplied by Model/FloatCodec.lean.
  Lean 4.33's `Float`/`Float32` are structures over the logical model `Float.Model` (Init/Data/Float/Model): `+ - * /`,
  `sqrt`, `abs`, negation, comparisons, `isNaN`, `ofBits`/`toBits`, `ofNat`/`ofInt`/`ofScientific` and `toUSize` are
  ordinary definitions that reduce in the kernel and are compiled to the C `double`/`float` operations. The conversions
  the runtime keeps opaque (`ceil`, `as i32`, `f32 ↔ f64`) are taken from Model/FloatBits.lean instead, so that every
  field of the instances below except the libm functions of `Trig` is kernel-transparent.
-/
import RosuModel.Model.Scalar
import RosuModel.Model.FloatCodec
import RosuModel.Model.FloatBits
namespace Rosu

/-- the conversions Lean keeps opaque, through their bit-level definitions (Model/FloatBits.lean). -/
def f64Ceil (x : Float) : Float := Float.ofBits (UInt64.ofNat (ceilBits fmt64 x.toBits.toNat))
def f32Ceil (x : Float32) : Float32 := Float32.ofBits (UInt32.ofNat (ceilBits fmt32 x.toBits.toNat))
def f64ToI32 (x : Float) : Int := toI32Bits fmt64 x.toBits.toNat
def f32ToI32 (x : Float32) : Int := toI32Bits fmt32 x.toBits.toNat
def f32ToF64 (x : Float32) : Float := Float.ofBits (UInt64.ofNat (upBits x.toBits.toNat))
def f64ToF32 (x : Float) : Float32 := Float32.ofBits (UInt32.ofNat (downBits x.toBits.toNat))

def f64TotalKey (x : Float) : Int :=
  let b := x.toBits.toNat
  if b < 2 ^ 63 then (b : Int) else -((b - 2 ^ 63 : Nat) : Int) - 1

def f32TotalKey (x : Float32) : Int :=
  let b := x.toBits.toNat
  if b < 2 ^ 31 then (b : Int) else -((b - 2 ^ 31 : Nat) : Int) - 1

instance : Scalar Float where
  ofNat n := Float.ofNat n
  ofSci m s e := Float.ofScientific m s e
  lt a b := a < b
  le a b := a ≤ b
  eq a b := a == b
  isNaN := Float.isNaN
  abs := Float.abs
  sqrt := Float.sqrt
  ceil := f64Ceil
  eps := Float.ofBits 0x3CB0000000000000
  ofInt := Float.ofInt
  toI32 := f64ToI32
  toUsize x := x.toUSize.toNat
  totalKey := f64TotalKey
  parse s := (parseBits fmt64 s).map fun b => Float.ofBits (UInt64.ofNat b)
  print x := printBits fmt64 x.toBits.toNat

instance : Scalar Float32 where
  ofNat n := Float32.ofNat n
  ofSci m s e := Float32.ofScientific m s e
  lt a b := a < b
  le a b := a ≤ b
  eq a b := a == b
  isNaN := Float32.isNaN
  abs := Float32.abs
  sqrt := Float32.sqrt
  ceil := f32Ceil
  eps := Float32.ofBits 0x34000000
  ofInt := Float32.ofInt
  toI32 := f32ToI32
  toUsize x := x.toUSize.toNat
  totalKey := f32TotalKey
  parse s := (parseBits fmt32 s).map fun b => Float32.ofBits (UInt32.ofNat b)
  print x := printBits fmt32 x.toBits.toNat

instance : Trig Float where
  sin := Float.sin
  cos := Float.cos
  acos := Float.acos
  atan2 := Float.atan2
  pi := Float.ofBits 0x400921FB54442D18

instance : Cvt Float32 Float where
  up := f32ToF64
  down := f64ToF32

def hex64 (x : Float) : String := String.ofList (Nat.toDigits 16 x.toBits.toNat)
def hex32 (x : Float32) : String := String.ofList (Nat.toDigits 16 x.toBits.toNat)

end Rosu
