/-
  Model/ControlPoints.lean — `src/section/timing_points/control_points/{timing,difficulty,effect,sample}.rs`
  and `ControlPoints` with its lookups and the four `ControlPoint<ControlPoints>` impls of
  `src/section/timing_points/decode.rs`.

  Generic over the f64-side scalar `F` (Model/Scalar.lean). The collections are ordered by
  `f64::total_cmp`, realised here by the `Int` key `Scalar.totalKey`.

  TRUSTED (std contract, not proved): on a slice that is strictly sorted w.r.t. the comparator,
  `slice::binary_search_by` returns `Ok(i)` for the unique hit and otherwise `Err(i)` with `i` the
  insertion point (number of elements that compare `Less`). `searchKey` below is exactly that
  function, written as a linear scan. On a slice that is *not* sorted std leaves the result
  unspecified; the model is then merely *some* function. `C13.adds_sorted` shows that every
  collection built through `add` from the empty one is strictly sorted, which is what makes the
  contract applicable on every reachable state.
-/
import RosuModel.Model.Basic
namespace Rosu

/-! ### point types -/

/-- `TimeSignature { numerator: NonZeroU32 }`; invariant `1 ≤ numerator` (see `TimeSignature.new`). -/
structure TimeSignature where
  numerator : Nat
  deriving DecidableEq, Repr, Inhabited

/-- `TimeSignature::new(numerator: i32)`: `u32::try_from(n).ok().and_then(NonZeroU32::new)`. -/
def TimeSignature.new (n : Int) : Option TimeSignature :=
  if 1 ≤ n then some ⟨n.toNat⟩ else none

/-- `TimeSignature::new_simple_quadruple`. -/
def TimeSignature.simpleQuadruple : TimeSignature := ⟨4⟩

structure TimingPoint (F : Type) where
  time : F
  beatLen : F
  omitFirstBarLine : Bool
  timeSignature : TimeSignature
  deriving DecidableEq

structure DifficultyPoint (F : Type) where
  time : F
  sliderVelocity : F
  generateTicks : Bool
  deriving DecidableEq

structure EffectPoint (F : Type) where
  time : F
  kiai : Bool
  scrollSpeed : F
  deriving DecidableEq

structure SamplePoint (F : Type) where
  time : F
  sampleBank : SampleBank
  sampleVolume : Int
  customSampleBank : Int
  deriving DecidableEq

section
variable {F : Type} [Scalar F]

/-- `TimingPoint::new`: `beat_len.clamp(6.0, 60_000.0)`. -/
def TimingPoint.new (time beatLen : F) (omitBar : Bool) (sig : TimeSignature) : TimingPoint F :=
  { time := time, beatLen := Scalar.clamp beatLen (6 : F) (60000 : F),
    omitFirstBarLine := omitBar, timeSignature := sig }

/-- `TimingPoint::default` (`DEFAULT_BEAT_LEN = 60_000.0 / 60.0`). -/
def TimingPoint.default : TimingPoint F :=
  { time := 0, beatLen := (60000 : F) / (60 : F), omitFirstBarLine := false,
    timeSignature := TimeSignature.simpleQuadruple }

/-- `DifficultyPoint::new(time, beat_len, speed_multiplier)`. -/
def DifficultyPoint.new (time beatLen speedMultiplier : F) : DifficultyPoint F :=
  { time := time, sliderVelocity := Scalar.clamp speedMultiplier (0.1 : F) (10 : F),
    generateTicks := !Scalar.isNaN beatLen }

def DifficultyPoint.default : DifficultyPoint F :=
  { time := 0, sliderVelocity := 1, generateTicks := true }

/-- `DifficultyPoint::is_redundant`. -/
def DifficultyPoint.isRedundant (self existing : DifficultyPoint F) : Bool :=
  (self.generateTicks == existing.generateTicks) &&
    Scalar.lt (Scalar.abs (self.sliderVelocity - existing.sliderVelocity)) (Scalar.eps : F)

/-- `EffectPoint::new(time, kiai)`. -/
def EffectPoint.new (time : F) (kiai : Bool) : EffectPoint F :=
  { time := time, kiai := kiai, scrollSpeed := 1 }

def EffectPoint.default : EffectPoint F :=
  { time := 0, kiai := false, scrollSpeed := 1 }

/-- `EffectPoint::is_redundant`. -/
def EffectPoint.isRedundant (self existing : EffectPoint F) : Bool :=
  (self.kiai == existing.kiai) &&
    Scalar.lt (Scalar.abs (self.scrollSpeed - existing.scrollSpeed)) (Scalar.eps : F)

/-- `i32::clamp(0, 100)`. -/
def clampVolume (v : Int) : Int := if v < 0 then 0 else if 100 < v then 100 else v

/-- `SamplePoint::new`. -/
def SamplePoint.new (time : F) (bank : SampleBank) (volume custom : Int) : SamplePoint F :=
  { time := time, sampleBank := bank, sampleVolume := clampVolume volume, customSampleBank := custom }

def SamplePoint.default : SamplePoint F :=
  { time := 0, sampleBank := .normal, sampleVolume := 100, customSampleBank := 0 }

/-- `SamplePoint::is_redundant`. -/
def SamplePoint.isRedundant (self existing : SamplePoint F) : Bool :=
  (self.sampleBank == existing.sampleBank) && (self.sampleVolume == existing.sampleVolume) &&
    (self.customSampleBank == existing.customSampleBank)

/-- the `total_cmp` keys of the four kinds. -/
def TimingPoint.key (p : TimingPoint F) : Int := Scalar.totalKey p.time
def DifficultyPoint.key (p : DifficultyPoint F) : Int := Scalar.totalKey p.time
def EffectPoint.key (p : EffectPoint F) : Int := Scalar.totalKey p.time
def SamplePoint.key (p : SamplePoint F) : Int := Scalar.totalKey p.time

end

/-! ### binary search, as its contract -/

/-- `Result<usize, usize>` of `binary_search_by`. -/
inductive SearchRes
  | found (i : Nat)
  | notFound (i : Nat)
  deriving DecidableEq, Repr

def SearchRes.shift : SearchRes → SearchRes
  | .found i => .found (i + 1)
  | .notFound i => .notFound (i + 1)

/-- `l.binary_search_by(|probe| key(probe).cmp(t))` on a strictly sorted `l` (see the header):
index of the first element whose key is `≥ t`, and whether that key equals `t`. -/
def searchKey {α : Type} (key : α → Int) (t : Int) : List α → SearchRes
  | [] => .notFound 0
  | x :: xs =>
    if key x < t then (searchKey key t xs).shift
    else if key x = t then .found 0
    else .notFound 0

/-- `match search { Err(i) => v.insert(i, p), Ok(i) => v[i] = p }`. -/
def insertOrReplace {α : Type} (key : α → Int) (p : α) (l : List α) : List α :=
  match searchKey key (key p) l with
  | .notFound i => l.insertIdx i p
  | .found i => l.set i p

/-- `search.map_or_else(|i| i.checked_sub(1), Some).map(|i| &v[i])`. -/
def lookupChecked {α : Type} (key : α → Int) (t : Int) (l : List α) : Option α :=
  match searchKey key t l with
  | .found i => l[i]?
  | .notFound i => if i = 0 then none else l[i - 1]?

/-- `v.get(search.unwrap_or_else(|i| i.saturating_sub(1)))`. -/
def lookupSaturating {α : Type} (key : α → Int) (t : Int) (l : List α) : Option α :=
  match searchKey key t l with
  | .found i => l[i]?
  | .notFound i => l[i - 1]?

/-! ### the collection -/

structure ControlPoints (F : Type) where
  timingPoints : List (TimingPoint F) := []
  difficultyPoints : List (DifficultyPoint F) := []
  effectPoints : List (EffectPoint F) := []
  samplePoints : List (SamplePoint F) := []

namespace ControlPoints
variable {F : Type} [Scalar F]

def empty : ControlPoints F := {}

/-- `ControlPoints::difficulty_point_at`. -/
def difficultyPointAt (cp : ControlPoints F) (time : F) : Option (DifficultyPoint F) :=
  lookupChecked DifficultyPoint.key (Scalar.totalKey time) cp.difficultyPoints

/-- `ControlPoints::effect_point_at`. -/
def effectPointAt (cp : ControlPoints F) (time : F) : Option (EffectPoint F) :=
  lookupChecked EffectPoint.key (Scalar.totalKey time) cp.effectPoints

/-- `ControlPoints::sample_point_at`. -/
def samplePointAt (cp : ControlPoints F) (time : F) : Option (SamplePoint F) :=
  lookupSaturating SamplePoint.key (Scalar.totalKey time) cp.samplePoints

/-- `ControlPoints::timing_point_at`. -/
def timingPointAt (cp : ControlPoints F) (time : F) : Option (TimingPoint F) :=
  lookupSaturating TimingPoint.key (Scalar.totalKey time) cp.timingPoints

/-- `ControlPoints::add::<TimingPoint>`: `check_already_existing` is `false`. -/
def addTiming (cp : ControlPoints F) (p : TimingPoint F) : ControlPoints F :=
  { cp with timingPoints := insertOrReplace TimingPoint.key p cp.timingPoints }

/-- `<DifficultyPoint as ControlPoint>::check_already_existing`. -/
def difficultyExists (cp : ControlPoints F) (p : DifficultyPoint F) : Bool :=
  match cp.difficultyPointAt p.time with
  | some existing => p.isRedundant existing
  | none => p.isRedundant DifficultyPoint.default

/-- `ControlPoints::add::<DifficultyPoint>`. -/
def addDifficulty (cp : ControlPoints F) (p : DifficultyPoint F) : ControlPoints F :=
  if cp.difficultyExists p then cp
  else { cp with difficultyPoints := insertOrReplace DifficultyPoint.key p cp.difficultyPoints }

/-- `<EffectPoint as ControlPoint>::check_already_existing`. -/
def effectExists (cp : ControlPoints F) (p : EffectPoint F) : Bool :=
  match cp.effectPointAt p.time with
  | some existing => p.isRedundant existing
  | none => p.isRedundant EffectPoint.default

/-- `ControlPoints::add::<EffectPoint>`. -/
def addEffect (cp : ControlPoints F) (p : EffectPoint F) : ControlPoints F :=
  if cp.effectExists p then cp
  else { cp with effectPoints := insertOrReplace EffectPoint.key p cp.effectPoints }

/-- `<SamplePoint as ControlPoint>::check_already_existing`: the search with `checked_sub(1)`, then
`map_or(false, is_redundant)` — no comparison with the default. -/
def sampleExists (cp : ControlPoints F) (p : SamplePoint F) : Bool :=
  match lookupChecked SamplePoint.key (Scalar.totalKey p.time) cp.samplePoints with
  | some existing => p.isRedundant existing
  | none => false

/-- `ControlPoints::add::<SamplePoint>`. -/
def addSample (cp : ControlPoints F) (p : SamplePoint F) : ControlPoints F :=
  if cp.sampleExists p then cp
  else { cp with samplePoints := insertOrReplace SamplePoint.key p cp.samplePoints }

end ControlPoints
end Rosu
