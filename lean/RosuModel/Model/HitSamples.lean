/-
  Model/HitSamples.lean — src/section/hit_objects/hit_samples.rs:
  `HitSampleInfo`, `SampleBankInfo::{read_custom_sample_banks, convert_sound_type}`, `HitSoundType`.
-/
import RosuModel.Model.Num
import RosuModel.Model.Basic
namespace Rosu

inductive HitSampleDefaultName | normal | whistle | finish | clap
  deriving DecidableEq, Repr, Inhabited

inductive HitSampleInfoName
  | default (n : HitSampleDefaultName)
  | file (name : Str)
  deriving DecidableEq, Repr, Inhabited

structure HitSampleInfo where
  name : HitSampleInfoName
  bank : SampleBank
  suffix : Option Int          -- NonZeroU32
  volume : Int
  customSampleBank : Int
  bankSpecified : Bool
  isLayered : Bool
  deriving DecidableEq, Repr, Inhabited

/-- `HitSampleInfo::new`. -/
def HitSampleInfo.new (name : HitSampleInfoName) (bank : Option SampleBank) (customSampleBank volume : Int) :
    HitSampleInfo :=
  { name := name
    bank := bank.getD .normal
    suffix := if customSampleBank ≥ 2 then some customSampleBank else none
    volume := volume
    customSampleBank := customSampleBank
    bankSpecified := bank.isSome
    isLayered := false }

/-- two's-complement bit `k` of an `i32`/`u8` value held as an `Int`. -/
def testBit (n : Int) (k : Nat) : Bool := (n / 2 ^ k) % 2 == 1

/-- `<HitSoundType as FromStr>::from_str`: raw `i32::from_str`, then `& 0xFF`. -/
def HitSoundType.parse (s : Str) : Option Int :=
  match i32FromStr s with
  | some n => some (n % 256)
  | none => none

structure SampleBankInfo where
  filename : Option Str := none
  bankForNormal : Option SampleBank := none
  bankForAddition : Option SampleBank := none
  volume : Int := 0
  customSampleBank : Int := 0
  deriving DecidableEq, Repr, Inhabited

def bankOrNormal (n : Int) : SampleBank := (SampleBank.ofInt n).getD .normal
def someUnlessNone (b : SampleBank) : Option SampleBank := if b == .none then none else some b

/-- `SampleBankInfo::read_custom_sample_banks` on the pieces of `split(':')`.
Returns the info as it is when the function returns, and whether it returned `Ok`. -/
def SampleBankInfo.readCustomSampleBanks (self : SampleBankInfo) (pieces : List Str) (banksOnly : Bool) :
    SampleBankInfo × Bool :=
  match pieces with
  | [] => (self, true)
  | first :: r1 =>
    if first.isEmpty then (self, true) else
    match i32Parse first with
    | none => (self, false)
    | some b =>
      let bank := bankOrNormal b
      match r1 with
      | [] => (self, false)                       -- MissingInfo
      | second :: r2 =>
        match i32Parse second with
        | none => (self, false)
        | some ab =>
          let addBank := bankOrNormal ab
          let normalBank := someUnlessNone bank
          let addBank := someUnlessNone addBank
          let self := { self with bankForNormal := normalBank, bankForAddition := addBank.orElse (fun _ => normalBank) }
          if banksOnly then (self, true) else
          match r2 with
          | [] => ({ self with filename := none }, true)
          | third :: r3 =>
            match i32Parse third with
            | none => (self, false)
            | some csb =>
              let self := { self with customSampleBank := csb }
              match r3 with
              | [] => ({ self with filename := none }, true)
              | fourth :: r4 =>
                match i32Parse fourth with
                | none => (self, false)
                | some vol =>
                  let self := { self with volume := if vol < 0 then 0 else vol }
                  ({ self with filename := r4.head? }, true)

def sndNone : Int := 0
def sndNormal : Nat := 0
def sndWhistle : Nat := 1
def sndFinish : Nat := 2
def sndClap : Nat := 3

/-- `SampleBankInfo::convert_sound_type`. -/
def SampleBankInfo.convertSoundType (self : SampleBankInfo) (soundType : Int) : List HitSampleInfo :=
  let first : HitSampleInfo :=
    match self.filename with
    | some f =>
      if !f.isEmpty then HitSampleInfo.new (.file f) none 1 self.volume
      else
        { HitSampleInfo.new (.default .normal) self.bankForNormal self.customSampleBank self.volume with
          isLayered := soundType != 0 && !testBit soundType sndNormal }
    | none =>
      { HitSampleInfo.new (.default .normal) self.bankForNormal self.customSampleBank self.volume with
        isLayered := soundType != 0 && !testBit soundType sndNormal }
  let add (flag : Nat) (n : HitSampleDefaultName) : List HitSampleInfo :=
    if testBit soundType flag then
      [HitSampleInfo.new (.default n) self.bankForAddition self.customSampleBank self.volume]
    else []
  first :: (add sndFinish .finish ++ add sndWhistle .whistle ++ add sndClap .clap)

end Rosu
