/-
  Model/Scalar.lean — the arithmetic interface the model is generic over (DESIGN.md 3.3).

  `Scalar α` lists the operations rosu-map applies to `f32`/`f64` values. It carries **no laws**:
  a theorem proved for every `[Scalar α]` holds for the IEEE instances used by the driver
  (`Float`, `Float32`, in Model/FloatInst.lean) exactly as for ℝ or ℚ. Laws are added as explicit
  hypotheses/classes in the Props files where a theorem needs them.
-/
import RosuModel.Model.Text
namespace Rosu

class Scalar (α : Type) extends Add α, Sub α, Mul α, Div α, Neg α where
  ofNat : Nat → α
  /-- decimal literal `m · 10^(±e)` (`OfScientific`). -/
  ofSci : Nat → Bool → Nat → α
  /-- IEEE `<`, `<=`, `==` (false when a NaN is involved). -/
  lt : α → α → Bool
  le : α → α → Bool
  eq : α → α → Bool
  isNaN : α → Bool
  abs : α → α
  sqrt : α → α
  ceil : α → α
  /-- machine epsilon of the type (`f64::EPSILON` / `f32::EPSILON`). -/
  eps : α
  /-- `i32 as f64` / `i32 as f32`, `usize as f64`. -/
  ofInt : Int → α
  /-- `x as i32`: truncating, saturating, NaN ↦ 0. -/
  toI32 : α → Int
  /-- `x as usize`. -/
  toUsize : α → Nat
  /-- a key realising `total_cmp`: `total_cmp a b = compare (totalKey a) (totalKey b)`. -/
  totalKey : α → Int
  /-- Rust `FromStr`. -/
  parse : Str → Option α
  /-- Rust `Display`. -/
  print : α → Str

namespace Scalar
variable {α : Type} [Scalar α]

instance (n : Nat) : OfNat α n := ⟨Scalar.ofNat n⟩
instance : OfScientific α := ⟨Scalar.ofSci⟩

/-- `f64::max` / `f32::max` (IEEE maxNum: a NaN operand is ignored). -/
def max (a b : α) : α := if lt a b then b else if isNaN a then b else a

/-- `f64::min`. -/
def min (a b : α) : α := if lt b a then b else if isNaN a then b else a

/-- `f64::clamp(self, lo, hi)`. -/
def clamp (x lo hi : α) : α :=
  let x := if lt x lo then lo else x
  if lt hi x then hi else x

/-- `f64::recip`. -/
def recip (x : α) : α := (1 : α) / x

/-- `a > b`, `a >= b`, `a != b` as Rust evaluates them. -/
def gt (a b : α) : Bool := lt b a
def ge (a b : α) : Bool := le b a
def ne (a b : α) : Bool := !eq a b

end Scalar

/-- libm functions used by the circular-arc code (f64 only). -/
class Trig (α : Type) where
  sin : α → α
  cos : α → α
  acos : α → α
  atan2 : α → α → α
  pi : α

/-- conversions between the f32-side scalar `P` and the f64-side scalar `F`. -/
class Cvt (P F : Type) where
  /-- `f64::from(x)` -/
  up : P → F
  /-- `x as f32` -/
  down : F → P

end Rosu
