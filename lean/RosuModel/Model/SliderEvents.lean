/-
  Model/SliderEvents.lean — `SliderEventsIter` of src/section/hit_objects/slider/event.rs:
  the lazy state machine Head → Ticks{span} → LastTick → Tail → Done, `generate_ticks` with its
  reversed stack, and an *eager reference* `eventsSpec` of the same stream (C20).

  Generic over the f64-side scalar `F` (DESIGN.md 3.3); the driver runs `F := Float`.
  Core Lean only.

  Representation of the reusable `Vec<SliderEvent>` ("ticks buffer"): a `List` holding the Vec's
  elements **back first**, so that
      `Vec::push(x)`   = `x :: l`          `Vec::pop()`     = head / tail of `l`
      `Vec::reverse()` = `List.reverse`    `Vec::clear()`   = `[]`
  (`Vec.ofStack`/`toVec` convert to front-first order for printing). Every Vec operation of the
  Rust code appears below as the corresponding list operation, in the same order.

  Domain. `span_count` is an `i32` in Rust and the `Ticks` arm leaves only when `*span == span_count`
  (an *equality* test, `span` starting at 0 and incremented by one per generated span):
    * `span_count ≥ 1`: the domain of property C20;
    * `span_count = 0`: no span is generated, the stream is `[head, lastTick, tail]` (modelled, compared);
    * `span_count < 0`: the Rust loop generates spans 0,1,2,… until `span` overflows (`*span += 1`
      panics with overflow checks, wraps without) — about 2³² tick generations. Not modelled: spans are
      `Int`, the inner loop of `next` receives the computed bound `(span_count − span) + 3`, and outside
      the domain `next` answers `none` = fuel-exhausted (reported as such by the driver, never compared).
  All `%` are applied to non-negative operands inside the domain; `Int.tmod` (Rust's truncating `%`) is used.

  Fuel. `generate_ticks` contains `while d <= len { if d >= len - min_dist_from_end {break}; …; d += tick_dist }`,
  bounded by arithmetic only; `tickLoop` takes a `fuel` argument and `none` means fuel-exhausted.
  With lawful arithmetic and `tick_dist > 0` the loop body runs fewer than `n` times as soon as
  `len < n · tick_dist` (`Rosu.C20.ticks_fuel_suffices`). In IEEE arithmetic the Rust loop itself need not
  terminate in reasonable time: `d` grows by `tick_dist` per turn, so it runs ≈ `len / tick_dist` turns (≤ 10⁵/5e-324),
  and once `d ≥ 2⁵³·tick_dist` the addition `d + tick_dist` rounds back to `d` and it never terminates
  (reachable only after ≥ 2⁵² turns). `len ≤ 100000` and the clamp `tick_dist ≤ len` do not exclude
  this; the callers in encode.rs derive `tick_dist` from `slider_tick_rate`, which the decoder does not bound from above.
  The generators of the check keep `len / tick_dist ≤ 10⁵`.
-/
import RosuModel.Model.Scalar
namespace Rosu
namespace SliderEvents

/-- `SliderEventType`. -/
inductive Kind | head | tick | repeatPt | lastTick | tail
  deriving DecidableEq, Repr, Inhabited

/-- `SliderEvent`. -/
structure SliderEvent (F : Type) where
  kind : Kind
  spanIdx : Int
  spanStartTime : F
  time : F
  pathProgress : F
  deriving DecidableEq, Repr

/-- `SliderEventsIterState`. -/
inductive State | head | ticks (span : Int) | lastTick | tail | done
  deriving DecidableEq, Repr, Inhabited

/-- the value fields of `SliderEventsIter` (fixed by `new`, never mutated afterwards). -/
structure Params (F : Type) where
  startTime : F
  spanDuration : F
  minDistFromEnd : F
  tickDist : F
  len : F
  spanCount : Int
  deriving DecidableEq, Repr

/-- `SliderEventsIter`: parameters, the borrowed buffer (back first, see the header), the state. -/
structure Iter (F : Type) extends Params F where
  ticks : List (SliderEvent F)
  state : State
  deriving DecidableEq

variable {F : Type} [Scalar F]

/-- `SliderEventsIter::MAX_LEN`, `TAIL_LENIENCY`. -/
def maxLen : F := (100000 : F)
def tailLeniency : F := -(36 : F)

/-- the parameter part of `SliderEventsIter::new`. `none` = the panic of `f64::clamp`
(`assert!(min <= max)`, here `0.0 <= len`; `len` is never NaN because `f64::min` ignores a NaN operand). -/
def Params.new (startTime spanDuration velocity tickDist totalDist : F) (spanCount : Int) :
    Option (Params F) :=
  let len := Scalar.min (maxLen : F) totalDist
  if Scalar.le (0 : F) len then
    some { startTime, spanDuration, minDistFromEnd := velocity * (10 : F),
           tickDist := Scalar.clamp tickDist (0 : F) len, len, spanCount }
  else none

/-- `SliderEventsIter::new`: the buffer comes in with arbitrary contents and is cleared
(`ticks.clear()`), after the clamp (so a panicking `new` leaves the buffer untouched). -/
def Iter.new (startTime spanDuration velocity tickDist totalDist : F) (spanCount : Int)
    (_ticks : List (SliderEvent F)) : Option (Iter F) :=
  (Params.new startTime spanDuration velocity tickDist totalDist spanCount).map
    fun p => { toParams := p, ticks := [], state := .head }

/-- `span % 2 == 1`. -/
def isReversed (span : Int) : Bool := Int.tmod span 2 == 1

/-- `start_time + f64::from(span) * span_duration`. -/
def spanStart (p : Params F) (span : Int) : F := p.startTime + Scalar.ofInt span * p.spanDuration

/-- `new_repeat_point`. -/
def newRepeatPoint (span : Int) (spanStartTime spanDuration : F) : SliderEvent F :=
  { kind := .repeatPt, spanIdx := span, spanStartTime,
    time := spanStartTime + spanDuration,
    pathProgress := Scalar.ofInt (Int.tmod (span + 1) 2) }

/-- the tick built in the body of the `while` loop of `generate_ticks` for distance `d`. -/
def mkTick (p : Params F) (span : Int) (reversed : Bool) (spanStartTime d : F) : SliderEvent F :=
  let pathProgress := d / p.len
  let timeProgress := if reversed then (1 : F) - pathProgress else pathProgress
  { kind := .tick, spanIdx := span, spanStartTime,
    time := spanStartTime + timeProgress * p.spanDuration, pathProgress }

/-- the `while d <= iter.len` loop of `generate_ticks`, pushing onto the buffer. `none` = fuel-exhausted. -/
def tickLoop (p : Params F) (span : Int) (reversed : Bool) (spanStartTime : F) :
    Nat → F → List (SliderEvent F) → Option (List (SliderEvent F))
  | 0, _, _ => none
  | fuel + 1, d, buf =>
    if Scalar.le d p.len then
      if Scalar.ge d (p.len - p.minDistFromEnd) then some buf
      else tickLoop p span reversed spanStartTime fuel (d + p.tickDist)
             (mkTick p span reversed spanStartTime d :: buf)
    else some buf

/-- `generate_ticks` as a function of the buffer. -/
def generateTicksBuf (fuel : Nat) (p : Params F) (span : Int) (buf : List (SliderEvent F)) :
    Option (List (SliderEvent F)) :=
  let reversed := isReversed span
  let spanStartTime := spanStart p span
  let withRepeat := decide (span < p.spanCount - 1)
  let buf := if reversed && withRepeat
    then newRepeatPoint span spanStartTime p.spanDuration :: buf else buf
  let d := p.tickDist
  let looped := if Scalar.gt d (0 : F) then tickLoop p span reversed spanStartTime fuel d buf else some buf
  looped.map fun buf =>
    -- "We pop from the back so we want to double-reverse"
    if !reversed then
      let buf := if withRepeat then newRepeatPoint span spanStartTime p.spanDuration :: buf else buf
      buf.reverse
    else buf

/-- `generate_ticks(iter, span)`. -/
def generateTicks (fuel : Nat) (it : Iter F) (span : Int) : Option (Iter F) :=
  (generateTicksBuf fuel it.toParams span it.ticks).map fun buf => { it with ticks := buf }

def headEvent (p : Params F) : SliderEvent F :=
  { kind := .head, spanIdx := 0, spanStartTime := p.startTime, time := p.startTime, pathProgress := (0 : F) }

/-- the event returned by the `LastTick` arm. -/
def lastTickEvent (p : Params F) : SliderEvent F :=
  let totalDuration := Scalar.ofInt p.spanCount * p.spanDuration
  let finalSpanIdx := p.spanCount - 1
  let finalSpanStartTime := p.startTime + Scalar.ofInt finalSpanIdx * p.spanDuration
  let lastTickTime := Scalar.max (p.startTime + totalDuration / (2 : F))
    ((finalSpanStartTime + p.spanDuration) + tailLeniency)
  let lastTickProgress := (lastTickTime - finalSpanStartTime) / p.spanDuration
  let lastTickProgress := if Int.tmod p.spanCount 2 == 0 then (1 : F) - lastTickProgress else lastTickProgress
  { kind := .lastTick, spanIdx := finalSpanIdx, spanStartTime := finalSpanStartTime,
    time := lastTickTime, pathProgress := lastTickProgress }

/-- the event returned by the `Tail` arm. -/
def tailEvent (p : Params F) : SliderEvent F :=
  let totalDuration := Scalar.ofInt p.spanCount * p.spanDuration
  let finalSpanIdx := p.spanCount - 1
  { kind := .tail, spanIdx := finalSpanIdx,
    spanStartTime := p.startTime + Scalar.ofInt (p.spanCount - 1) * p.spanDuration,
    time := p.startTime + totalDuration,
    pathProgress := Scalar.ofInt (Int.tmod p.spanCount 2) }

/-- the `loop { match self.state { … } }` of `Iterator::next`, `n` bounding the number of turns.
Outer `none` = fuel-exhausted (tick loop, or `n` turns used up); inner `none` = end of the stream. -/
def nextLoop (fuel : Nat) : Nat → Iter F → Option (Option (SliderEvent F) × Iter F)
  | 0, _ => none
  | n + 1, it =>
    match it.state with
    | .head => some (some (headEvent it.toParams), { it with state := .ticks 0 })
    | .ticks span =>
      match it.ticks with
      | event :: rest => some (some event, { it with ticks := rest })          -- `self.ticks.pop()`
      | [] =>
        if span = it.spanCount then nextLoop fuel n { it with state := .lastTick }
        else
          match generateTicks fuel { it with state := .ticks (span + 1) } span with
          | none => none
          | some it' => nextLoop fuel n it'
    | .lastTick => some (some (lastTickEvent it.toParams), { it with state := .tail })
    | .tail => some (some (tailEvent it.toParams), { it with state := .done })
    | .done => some (none, it)

/-- a number of turns of the `loop` that suffices whenever `0 ≤ span ≤ span_count` (see the header). -/
def loopBound (it : Iter F) : Nat :=
  match it.state with
  | .ticks span => (it.spanCount - span).toNat + 3
  | _ => 1

/-- `<SliderEventsIter as Iterator>::next`. -/
def Iter.next (fuel : Nat) (it : Iter F) : Option (Option (SliderEvent F) × Iter F) :=
  nextLoop fuel (loopBound it) it

/-- `Iterator::collect`: `next` until `None`; at most `n` calls (`none` = fuel-exhausted). -/
def collect (fuel : Nat) : Nat → Iter F → Option (List (SliderEvent F))
  | 0, _ => none
  | n + 1, it =>
    match it.next fuel with
    | none => none
    | some (none, _) => some []
    | some (some ev, it') => (collect fuel n it').map (ev :: ·)

/-- tail-recursive `collect` (what the driver runs); also returns the iterator reached. -/
def collectAcc (fuel : Nat) : Nat → Iter F → List (SliderEvent F) → Option (List (SliderEvent F) × Iter F)
  | 0, _, _ => none
  | n + 1, it, acc =>
    match it.next fuel with
    | none => none
    | some (none, it') => some (acc.reverse, it')
    | some (some ev, it') => collectAcc fuel n it' (ev :: acc)

/-- `Iterator::take(k)` followed by `collect`, keeping the iterator: at most `k` calls of `next`,
none after the first `None`. -/
def takeAcc (fuel : Nat) : Nat → Iter F → List (SliderEvent F) → Option (List (SliderEvent F) × Iter F)
  | 0, it, acc => some (acc.reverse, it)
  | k + 1, it, acc =>
    match it.next fuel with
    | none => none
    | some (none, it') => some (acc.reverse, it')
    | some (some ev, it') => takeAcc fuel k it' (ev :: acc)

/-! ### a sequence of iterators on one buffer (how encode.rs uses the type) -/

/-- one use of the shared buffer: the arguments of `new` and how many events the caller consumes
(`none` = all of them) before dropping the iterator. -/
structure Use (F : Type) where
  startTime : F
  spanDuration : F
  velocity : F
  tickDist : F
  totalDist : F
  spanCount : Int
  take : Option Nat

inductive Outcome (F : Type)
  | events (evs : List (SliderEvent F))
  | panicked
  | fuelExhausted

/-- bound on the number of `next` calls when collecting everything (driver constant). -/
def collectBound : Nat := 100000000

/-- construct an iterator on `buf`, consume, drop it: what the caller saw and the buffer left behind. -/
def runUse (fuel : Nat) (u : Use F) (buf : List (SliderEvent F)) : Outcome F × List (SliderEvent F) :=
  match Iter.new u.startTime u.spanDuration u.velocity u.tickDist u.totalDist u.spanCount buf with
  | none => (.panicked, buf)
  | some it =>
    let r := match u.take with
      | none => collectAcc fuel collectBound it []
      | some k => takeAcc fuel k it []
    match r with
    | none => (.fuelExhausted, [])
    | some (evs, it') => (.events evs, it'.ticks)

/-- several uses in a row on the same buffer. -/
def runSeq (fuel : Nat) : List (Use F) → List (SliderEvent F) → List (Outcome F) × List (SliderEvent F)
  | [], buf => ([], buf)
  | u :: us, buf =>
    let (o, buf') := runUse fuel u buf
    let (os, buf'') := runSeq fuel us buf'
    (o :: os, buf'')

/-! ### eager reference -/

/-- the distances `d` at which one span carries a tick, in increasing order: the arithmetic of the
`while` loop alone (no buffer, no events). `none` = fuel-exhausted. -/
def tickDists (p : Params F) : Nat → F → Option (List F)
  | 0, _ => none
  | fuel + 1, d =>
    if Scalar.le d p.len then
      if Scalar.ge d (p.len - p.minDistFromEnd) then some []
      else (tickDists p fuel (d + p.tickDist)).map (d :: ·)
    else some []

/-- tick distances of a span (the same for every span): none at all unless `tick_dist > 0.0`. -/
def spanTickDists (p : Params F) (fuel : Nat) : Option (List F) :=
  if Scalar.gt p.tickDist (0 : F) then tickDists p fuel p.tickDist else some []

/-- the tick of span `span` at distance `d`. -/
def tickEvent (p : Params F) (span : Int) (d : F) : SliderEvent F :=
  mkTick p span (isReversed span) (spanStart p span) d

/-- the repeat that ends span `span`. -/
def repeatEvent (p : Params F) (span : Int) : SliderEvent F :=
  newRepeatPoint span (spanStart p span) p.spanDuration

/-- the events of one span in chronological order: its ticks (by increasing distance on even spans,
decreasing on odd ones) and, unless it is the last span, the repeat. -/
def spanEvents (p : Params F) (ds : List F) (span : Int) : List (SliderEvent F) :=
  ((if isReversed span then ds.reverse else ds).map (tickEvent p span)) ++
    (if span < p.spanCount - 1 then [repeatEvent p span] else [])

/-- spans `s, s+1, …, s+k-1`. -/
def spansFrom (p : Params F) (ds : List F) (s : Int) : Nat → List (SliderEvent F)
  | 0 => []
  | k + 1 => spanEvents p ds s ++ spansFrom p ds (s + 1) k

/-- the whole stream, given the tick distances of a span. -/
def eventsOf (p : Params F) (ds : List F) : List (SliderEvent F) :=
  headEvent p :: (spansFrom p ds 0 p.spanCount.toNat ++ [lastTickEvent p, tailEvent p])

/-- eager reference of the event stream (`none` = fuel-exhausted while computing the tick distances). -/
def eventsSpec (p : Params F) (fuel : Nat) : Option (List (SliderEvent F)) :=
  (spanTickDists p fuel).map (eventsOf p)

end SliderEvents
end Rosu
