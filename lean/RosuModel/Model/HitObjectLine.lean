/-
  Model/HitObjectLine.lean — `HitObjects::parse_hit_objects`, `HitObjectsState::{convert_path_str,
  convert_points}`, `PathType::new_from_str` (src/section/hit_objects/decode.rs, path_type.rs).

  The hit-object specific part of `HitObjectsState` is `HOCore`; `parseHitObjectLine` returns the
  core as it is when the Rust function returns together with `ok` (= `Ok(())`), so state mutated
  before a failing `?` is visible.
-/
import RosuModel.Model.NumParse
import RosuModel.Model.HitSamples
namespace Rosu
open Scalar

variable {F P : Type} [Scalar F] [Scalar P] [Cvt P F]

structure HitObjectCircle (P : Type) where
  pos : Pos P
  newCombo : Bool
  comboOffset : Int

structure SliderPathData (F P : Type) where
  mode : GameMode
  controlPoints : List (PathControlPoint P)
  expectedDist : Option F

structure HitObjectSlider (F P : Type) where
  pos : Pos P
  newCombo : Bool
  comboOffset : Int
  path : SliderPathData F P
  nodeSamples : List (List HitSampleInfo)
  repeatCount : Int
  velocity : F

structure HitObjectSpinner (F P : Type) where
  pos : Pos P
  duration : F
  newCombo : Bool

structure HitObjectHold (F P : Type) where
  posX : P
  duration : F

inductive HitObjectKind (F P : Type)
  | circle (h : HitObjectCircle P)
  | slider (h : HitObjectSlider F P)
  | spinner (h : HitObjectSpinner F P)
  | hold (h : HitObjectHold F P)

structure HitObject (F P : Type) where
  startTime : F
  kind : HitObjectKind F P
  samples : List HitSampleInfo

/-- the hit-object specific fields of `HitObjectsState`. `lastObject` is the masked type value. -/
structure HOCore (F P : Type) where
  lastObject : Option Int := none
  curvePoints : List (PathControlPoint P) := []
  vertices : List (PathControlPoint P) := []
  hitObjects : List (HitObject F P) := []

/-- the two path buffers of `HitObjectsState` that `convert_path_str` / `convert_points` work on. -/
structure PathScratch (P : Type) where
  curvePoints : List (PathControlPoint P) := []
  vertices : List (PathControlPoint P) := []

def HOCore.scratch (st : HOCore F P) : PathScratch P := ⟨st.curvePoints, st.vertices⟩
def HOCore.withScratch (st : HOCore F P) (sc : PathScratch P) : HOCore F P :=
  { st with curvePoints := sc.curvePoints, vertices := sc.vertices }

def maxCoordinate : Int := 131072

/-- `PathType::new_from_str`. -/
def PathType.newFromStr (s : Str) : PathType :=
  match s with
  | [] => PathType.catmull
  | c :: rest =>
    if c == 'B' then
      match i32FromStr rest with
      | some d => if d > 0 then ⟨.bspline, some d⟩ else PathType.bezier
      | none => PathType.bezier
    else if c == 'L' then PathType.linear
    else if c == 'P' then PathType.perfect
    else PathType.catmull

/-- `read_point` of `convert_points`. -/
def readPoint (value : Str) (startPos : Pos P) : Option (PathControlPoint P) :=
  match splitOn ':' value with
  | xs :: ys :: _ =>
    match (floatParseWithLimits xs (Scalar.ofInt maxCoordinate) : Option F) with
    | none => none
    | some x =>
      match (floatParseWithLimits ys (Scalar.ofInt maxCoordinate) : Option F) with
      | none => none
      | some y =>
        let pos : Pos P := ⟨Scalar.ofInt (Scalar.toI32 x), Scalar.ofInt (Scalar.toI32 y)⟩
        some { pos := pos - startPos, pathType := none }
  | _ => none

/-- `is_linear` of `convert_points` (f32 arithmetic). -/
def isLinear (p0 p1 p2 : Pos P) : Bool :=
  lt (Scalar.abs ((p1.y - p0.y) * (p2.x - p0.x) - (p1.x - p0.x) * (p2.y - p0.y))) (Scalar.eps : P)

/-- read all points, stopping at the first failure (`for … { push(read_point(..)?) }`). -/
def readPoints (F : Type) [Scalar F] (offset : Pos P) : List Str → Option (List (PathControlPoint P))
  | [] => some []
  | p :: ps =>
    match readPoint (F := F) p offset with
    | none => none
    | some v =>
      match readPoints F offset ps with
      | none => none
      | some vs => some (v :: vs)

def setPathTypeAt (vs : List (PathControlPoint P)) (i : Nat) (t : PathType) : List (PathControlPoint P) :=
  vs.modify i (fun v => { v with pathType := some t })

/-- the splitting loop at the end of `convert_points`:
`while { end_idx += 1; end_idx < vertices.len() - end_point_len }`. `fuel` bounds the iterations by the
number of vertices. Returns the vertices (types may have been set) and the extended `curve_points`. -/
def splitLoop (pathType : PathType) (limit : Nat) :
    Nat → List (PathControlPoint P) → List (PathControlPoint P) → Nat → Nat →
    List (PathControlPoint P) × List (PathControlPoint P) × Nat × Nat
  | 0, vs, cps, startIdx, endIdx => (vs, cps, startIdx, endIdx)
  | fuel + 1, vs, cps, startIdx, endIdx =>
    let endIdx := endIdx + 1
    if !(endIdx < limit) then (vs, cps, startIdx, endIdx)
    else
      match vs[endIdx]?, vs[endIdx - 1]? with
      | some a, some b =>
        if !Pos.eq a.pos b.pos then splitLoop pathType limit fuel vs cps startIdx endIdx
        else if pathType == PathType.catmull && endIdx > 1 then splitLoop pathType limit fuel vs cps startIdx endIdx
        else if endIdx == limit - 1 then splitLoop pathType limit fuel vs cps startIdx endIdx
        else
          let vs := setPathTypeAt vs (endIdx - 1) pathType
          let cps := cps ++ (vs.drop startIdx).take (endIdx - startIdx)
          splitLoop pathType limit fuel vs cps (endIdx + 1) endIdx
      | _, _ => (vs, cps, startIdx, endIdx)   -- unreachable: endIdx < limit ≤ vs.length

/-- the downgrade of perfect curves in `convert_points`: exactly three vertices that are collinear
(to `f32::EPSILON`) become linear, any other vertex count becomes Bezier. -/
def effectivePathType (pathType : PathType) (vs : List (PathControlPoint P)) : PathType :=
  if pathType == PathType.perfect then
    match vs with
    | [a, b, c] => if isLinear a.pos b.pos c.pos then PathType.linear else pathType
    | _ => PathType.bezier
  else pathType

/-- `HitObjectsState::convert_points`. -/
def convertPoints (F : Type) [Scalar F] [Cvt P F] (st : PathScratch P) (points : List Str) (endPoint : Option Str)
    (first : Bool) (offset : Pos P) : PathScratch P × Bool :=
  match points with
  | [] => (st, false)
  | head :: tail =>
    let pathType := PathType.newFromStr head
    let endPointLen := if endPoint.isSome then 1 else 0
    -- `self.vertices.clear()`, then the pushes; a failing `read_point` returns with what was pushed so far
    let init : List (PathControlPoint P) := if first then [{ pos := Pos.zero, pathType := none }] else []
    match readPoints F offset tail with
    | none => ({ st with vertices := init }, false)   -- contents of the scratch `vertices` are not observed
    | some vs1 =>
      let endVs : Option (List (PathControlPoint P)) :=
        match endPoint with
        | none => some []
        | some e => (readPoint (F := F) e offset).map (fun v => [v])
      match endVs with
      | none => ({ st with vertices := init ++ vs1 }, false)
      | some ev =>
        let vs := init ++ vs1 ++ ev
        let pathType := effectivePathType pathType vs
        match vs with
        | [] => ({ st with vertices := vs }, false)
        | v0 :: vrest =>
          let vs := { v0 with pathType := some pathType } :: vrest
          let limit := vs.length - endPointLen
          let (vs, cps, startIdx, endIdx) := splitLoop pathType limit (vs.length + 1) vs st.curvePoints 0 0
          let cps := if endIdx > startIdx then cps ++ (vs.drop startIdx).take (endIdx - startIdx) else cps
          ({ st with vertices := vs, curvePoints := cps }, true)

def firstIsAsciiAlpha (s : Str) : Option Bool :=
  match s with
  | [] => none
  | c :: _ => some (('a' ≤ c && c ≤ 'z') || ('A' ≤ c && c ≤ 'Z'))

/-- the segment loop of `convert_path_str` over the `|`-separated pieces. -/
def pathLoop (F : Type) [Scalar F] [Cvt P F] (pieces : List Str) (offset : Pos P) :
    Nat → PathScratch P → Nat → Nat → Bool → PathScratch P × Bool × Nat × Nat × Bool
  | 0, st, startIdx, endIdx, first => (st, true, startIdx, endIdx, first)
  | fuel + 1, st, startIdx, endIdx, first =>
    let endIdx := endIdx + 1
    if !(endIdx < pieces.length) then (st, true, startIdx, endIdx, first)
    else
      match pieces[endIdx]? with
      | none => (st, true, startIdx, endIdx, first)
      | some piece =>
        match firstIsAsciiAlpha piece with
        | none => (st, false, startIdx, endIdx, first)
        | some false => pathLoop F pieces offset fuel st startIdx endIdx first
        | some true =>
          let endPoint := pieces[endIdx + 1]?
          match convertPoints F st ((pieces.drop startIdx).take (endIdx - startIdx)) endPoint first offset with
          | (st', false) => (st', false, startIdx, endIdx, first)
          | (st', true) => pathLoop F pieces offset fuel st' endIdx endIdx false

/-- the closure `f` of `convert_path_str`: all segments of the path string. -/
def convertSegments (F : Type) [Scalar F] [Cvt P F] (st : PathScratch P) (pointStr : Str) (offset : Pos P) :
    PathScratch P × Bool :=
  let pieces := splitOn '|' pointStr
  match pathLoop F pieces offset (pieces.length + 1) st 0 0 true with
  | (st', false, _, _, _) => (st', false)
  | (st', true, startIdx, endIdx, first) =>
    if endIdx > startIdx then
      convertPoints F st' ((pieces.drop startIdx).take (endIdx - startIdx)) none first offset
    else (st', true)

/-- `HitObjectsState::convert_path_str`: on failure `curve_points` is cleared, so the points of
earlier segments of a malformed path never reach the next slider. -/
def convertPathStr (F : Type) [Scalar F] [Cvt P F] (st : PathScratch P) (pointStr : Str) (offset : Pos P) :
    PathScratch P × Bool :=
  match convertSegments F st pointStr offset with
  | (st', true) => (st', true)
  | (st', false) => ({ st' with curvePoints := [] }, false)

/-- per-node `read_custom_sample_banks` over `zip(node_bank_infos, next.split('|'))`, stopping at the first error. -/
def readNodeBanks : List SampleBankInfo → List Str → Option (List SampleBankInfo)
  | [], _ => some []
  | infos, [] => some infos
  | i :: is, s :: ss =>
    match i.readCustomSampleBanks (splitOn ':' s) false with
    | (_, false) => none
    | (i', true) => (readNodeBanks is ss).map (i' :: ·)

def readNodeSounds : List Int → List Str → List Int
  | [], _ => []
  | snds, [] => snds
  | _ :: is, s :: ss => ((HitSoundType.parse s).getD 0) :: readNodeSounds is ss

def typeCircle : Nat := 0
def typeSlider : Nat := 1
def typeNewCombo : Nat := 2
def typeSpinner : Nat := 3
def typeHold : Nat := 7

def optNonEmpty (s : Option Str) : Option Str :=
  match s with
  | some x => if x.isEmpty then none else some x
  | none => none

/-! ### `HitObjects::parse_hit_objects`, split into the pieces the theorems talk about -/

/-- the five leading fields of a line. -/
structure Header (F P : Type) where
  pos : Pos P
  startTime : F
  ty0 : Int            -- the type field as parsed (`i32`)
  soundType : Int      -- `HitSoundType` (0..255)
  rest : List Str

/-- leading fields: positions are parsed as `f32` within ±131072 and truncated (`as i32 as f32`). -/
def parseHeader (line : Str) : Option (Header F P) :=
  match splitOn ',' (trimComment line) with
  | xs :: ys :: startTimeS :: kindS :: soundS :: rest =>
    match (floatParseWithLimits xs (Scalar.ofInt maxCoordinate) : Option P) with
    | none => none
    | some xv =>
    match (floatParseWithLimits ys (Scalar.ofInt maxCoordinate) : Option P) with
    | none => none
    | some yv =>
    match (floatParse startTimeS : Option F) with
    | none => none
    | some startTime =>
    match i32FromStr kindS with
    | none => none
    | some ty0 =>
    match HitSoundType.parse soundS with
    | none => none
    | some soundType =>
      some { pos := ⟨Scalar.ofInt (Scalar.toI32 xv), Scalar.ofInt (Scalar.toI32 yv)⟩,
             startTime := startTime, ty0 := ty0, soundType := soundType, rest := rest }
  | _ => none

/-- `(type & COMBO_OFFSET) >> 4`. -/
def comboOffsetOf (ty0 : Int) : Int := (ty0 / 16) % 8
/-- the `NEW_COMBO` flag (bit 2). -/
def newComboOf (ty0 : Int) : Bool := testBit (ty0 - comboOffsetOf ty0 * 16) typeNewCombo
/-- the type with the combo-offset and new-combo bits cleared (what `last_object` remembers). -/
def maskedType (ty0 : Int) : Int :=
  let ty1 := ty0 - comboOffsetOf ty0 * 16
  if newComboOf ty0 then ty1 - 4 else ty1

inductive ObjClass | circle | slider | spinner | hold
  deriving DecidableEq, Repr

/-- flag precedence circle > slider > spinner > hold on the masked type. -/
def classify (ty : Int) : Option ObjClass :=
  if testBit ty typeCircle then some .circle
  else if testBit ty typeSlider then some .slider
  else if testBit ty typeSpinner then some .spinner
  else if testBit ty typeHold then some .hold
  else none

def lastWasSpinner (st : HOCore F P) : Bool :=
  match st.lastObject with | some k => testBit k typeSpinner | none => false

/-- the `new_combo` value stored for circles and sliders. -/
def forcedNewCombo (st : HOCore F P) (ty0 : Int) : Bool :=
  st.lastObject.isNone || lastWasSpinner st || newComboOf ty0

/-- the `combo_offset` value stored for circles and sliders. -/
def storedComboOffset (ty0 : Int) : Int := if newComboOf ty0 then comboOffsetOf ty0 else 0

def readExtras (rest : List Str) (banksOnly : Bool) : SampleBankInfo × Bool :=
  match rest with
  | s :: _ => ({} : SampleBankInfo).readCustomSampleBanks (splitOn ':' s) banksOnly
  | [] => ({}, true)

def buildCircle (st : HOCore F P) (hd : Header F P) : Option (HitObjectKind F P × SampleBankInfo) :=
  match readExtras hd.rest false with
  | (_, false) => none
  | (bankInfo, true) =>
    some (.circle { pos := hd.pos, newCombo := forcedNewCombo st hd.ty0, comboOffset := storedComboOffset hd.ty0 }, bankInfo)

/-- repeat count stored for a slider whose repeat field parsed to `rc0` (≤ 9000). -/
def storedRepeatCount (rc0 : Int) : Int := if rc0 - 1 < 0 then 0 else rc0 - 1

/-- the optional length field: `none` = parse error, `some none` = natural length. -/
def parseLength (rest2 : List Str) : Option (Option F) :=
  match rest2 with
  | next :: _ =>
    match (floatParseWithLimits next (Scalar.ofInt maxCoordinate) : Option F) with
    | none => none
    | some l =>
      let newLen := Scalar.max l 0
      some (if le (Scalar.eps : F) (Scalar.abs newLen) then some newLen else none)
  | [] => some none

/-- node sample lists of a slider: `none` on a parse error. -/
def buildNodeSamples (bankInfo : SampleBankInfo) (soundType : Int) (nodes : Nat) (next8 next9 : Option Str) :
    Option (List (List HitSampleInfo)) :=
  let nodeBankInfos0 := List.replicate nodes bankInfo
  let nodeBanksR := match optNonEmpty next9 with
    | some s => readNodeBanks nodeBankInfos0 (splitOn '|' s)
    | none => some nodeBankInfos0
  match nodeBanksR with
  | none => none
  | some nodeBankInfos =>
    let nodeSounds0 := List.replicate nodes soundType
    let nodeSounds := match optNonEmpty next8 with
      | some s => readNodeSounds nodeSounds0 (splitOn '|' s)
      | none => nodeSounds0
    some ((nodeBankInfos.zip nodeSounds).map fun (b, s) => b.convertSoundType s)

/-- everything of the slider arm that does not touch the state: all of it is evaluated (and can
fail) before `convert_path_str` is called. -/
structure SliderPrelude (F : Type) where
  pointStr : Str
  repeatCount : Int
  len : Option F
  nodeSamples : List (List HitSampleInfo)
  bankInfo : SampleBankInfo

def sliderPrelude (hd : Header F P) : Option (SliderPrelude F) :=
  match hd.rest with
  | pointStr :: repeatS :: rest2 =>
    match i32Parse repeatS with
    | none => none
    | some rc0 =>
      if rc0 > 9000 then none else
      match (parseLength rest2 : Option (Option F)) with
      | none => none
      | some len =>
        match readExtras (rest2.drop 3) true with
        | (_, false) => none
        | (bankInfo, true) =>
          match buildNodeSamples bankInfo hd.soundType ((storedRepeatCount rc0).toNat + 2)
              (rest2.drop 1).head? (rest2.drop 2).head? with
          | none => none
          | some nodeSamples =>
            some { pointStr := pointStr, repeatCount := storedRepeatCount rc0, len := len,
                   nodeSamples := nodeSamples, bankInfo := bankInfo }
  | _ => none

/-- the slider arm. The returned state differs from `st` only in the path scratch
(`curve_points`, `vertices`): on success `curve_points` has been moved into the slider. -/
def buildSlider (mode : GameMode) (st : HOCore F P) (hd : Header F P) :
    HOCore F P × Option (HitObjectKind F P × SampleBankInfo) :=
  match (sliderPrelude hd : Option (SliderPrelude F)) with
  | none => (st, none)
  | some pre =>
    match convertPathStr F st.scratch pre.pointStr hd.pos with
    | (sc, false) => (st.withScratch sc, none)
    | (sc, true) =>
      (st.withScratch { sc with curvePoints := [] },
       some (.slider
        { pos := hd.pos, newCombo := forcedNewCombo st hd.ty0, comboOffset := storedComboOffset hd.ty0,
          path := { mode := mode, controlPoints := sc.curvePoints, expectedDist := pre.len },
          nodeSamples := pre.nodeSamples, repeatCount := pre.repeatCount, velocity := 1 }, pre.bankInfo))

def buildSpinner (hd : Header F P) : Option (HitObjectKind F P × SampleBankInfo) :=
  match hd.rest with
  | durS :: rest2 =>
    match (floatParse durS : Option F) with
    | none => none
    | some d =>
      match readExtras rest2 false with
      | (_, false) => none
      | (bankInfo, true) =>
        some (.spinner { pos := ⟨(512 : P) / 2, (384 : P) / 2⟩, duration := Scalar.max (d - hd.startTime) 0,
                         newCombo := newComboOf hd.ty0 }, bankInfo)
  | [] => none

def buildHold (hd : Header F P) : Option (HitObjectKind F P × SampleBankInfo) :=
  let endTime0 := Scalar.max hd.startTime hd.startTime
  let r : Option (F × SampleBankInfo) :=
    match optNonEmpty hd.rest.head? with
    | none => some (endTime0, {})
    | some s =>
      match splitOn ':' s with
      | [] => none
      | e :: ss =>
        match (floatParse e : Option F) with
        | none => none
        | some newEnd =>
          match ({} : SampleBankInfo).readCustomSampleBanks ss false with
          | (_, false) => none
          | (bi, true) => some (Scalar.max hd.startTime newEnd, bi)
  match r with
  | none => none
  | some (endTime, bankInfo) => some (.hold { posX := hd.pos.x, duration := endTime - hd.startTime }, bankInfo)

/-- the common tail: push the object and remember the masked type. -/
def pushObject (st : HOCore F P) (hd : Header F P) (kind : HitObjectKind F P) (bankInfo : SampleBankInfo) :
    HOCore F P :=
  { st with lastObject := some (maskedType hd.ty0)
            hitObjects := st.hitObjects ++ [{ startTime := hd.startTime, kind := kind,
                                              samples := bankInfo.convertSoundType hd.soundType }] }

/-- `HitObjects::parse_hit_objects` (hit-object part of the state; `mode` is `state.timing_points.mode()`). -/
def parseHitObjectLine (mode : GameMode) (st : HOCore F P) (line : Str) : HOCore F P × Bool :=
  match (parseHeader line : Option (Header F P)) with
  | none => (st, false)
  | some hd =>
    match classify (maskedType hd.ty0) with
    | none => (st, false)
    | some .circle =>
      match buildCircle st hd with
      | none => (st, false)
      | some (k, b) => (pushObject st hd k b, true)
    | some .slider =>
      match buildSlider mode st hd with
      | (st', none) => (st', false)
      | (st', some (k, b)) => (pushObject st' hd k b, true)
    | some .spinner =>
      match buildSpinner hd with
      | none => (st, false)
      | some (k, b) => (pushObject st hd k b, true)
    | some .hold =>
      match buildHold hd with
      | none => (st, false)
      | some (k, b) => (pushObject st hd k b, true)

end Rosu
