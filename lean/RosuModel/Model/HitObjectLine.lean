/-
  Model/HitObjectLine.lean — `HitObjects::parse_hit_objects`, `HitObjectsState::{convert_path_str,
  convert_points}`, `PathType::new_from_str` (src/section/hit_objects/decode.rs, path_type.rs).

  The hit-object specific part of `HitObjectsState` is `HOCore`; `parseHitObjectLine` returns the
  core as it is when the Rust function returns together with `ok` (= `Ok(())`), so state mutated
  before a failing `?` is visible.
-/
import RosuModel.Model.NumParse
import RosuModel.Model.HitSamples
namespace Rosu
open Scalar

variable {F P : Type} [Scalar F] [Scalar P] [Cvt P F]

structure HitObjectCircle (P : Type) where
  pos : Pos P
  newCombo : Bool
  comboOffset : Int

structure SliderPathData (F P : Type) where
  mode : GameMode
  controlPoints : List (PathControlPoint P)
  expectedDist : Option F

structure HitObjectSlider (F P : Type) where
  pos : Pos P
  newCombo : Bool
  comboOffset : Int
  path : SliderPathData F P
  nodeSamples : List (List HitSampleInfo)
  repeatCount : Int
  velocity : F

structure HitObjectSpinner (F P : Type) where
  pos : Pos P
  duration : F
  newCombo : Bool

structure HitObjectHold (F P : Type) where
  posX : P
  duration : F

inductive HitObjectKind (F P : Type)
  | circle (h : HitObjectCircle P)
  | slider (h : HitObjectSlider F P)
  | spinner (h : HitObjectSpinner F P)
  | hold (h : HitObjectHold F P)

structure HitObject (F P : Type) where
  startTime : F
  kind : HitObjectKind F P
  samples : List HitSampleInfo

/-- the hit-object specific fields of `HitObjectsState`. `lastObject` is the masked type value. -/
structure HOCore (F P : Type) where
  lastObject : Option Int := none
  curvePoints : List (PathControlPoint P) := []
  vertices : List (PathControlPoint P) := []
  hitObjects : List (HitObject F P) := []

def maxCoordinate : Int := 131072

/-- `PathType::new_from_str`. -/
def PathType.newFromStr (s : Str) : PathType :=
  match s with
  | [] => PathType.catmull
  | c :: rest =>
    if c == 'B' then
      match i32FromStr rest with
      | some d => if d > 0 then ⟨.bspline, some d⟩ else PathType.bezier
      | none => PathType.bezier
    else if c == 'L' then PathType.linear
    else if c == 'P' then PathType.perfect
    else PathType.catmull

/-- `read_point` of `convert_points`. -/
def readPoint (value : Str) (startPos : Pos P) : Option (PathControlPoint P) :=
  match splitOn ':' value with
  | xs :: ys :: _ =>
    match (floatParseWithLimits xs (Scalar.ofInt maxCoordinate) : Option F) with
    | none => none
    | some x =>
      match (floatParseWithLimits ys (Scalar.ofInt maxCoordinate) : Option F) with
      | none => none
      | some y =>
        let pos : Pos P := ⟨Scalar.ofInt (Scalar.toI32 x), Scalar.ofInt (Scalar.toI32 y)⟩
        some { pos := pos - startPos, pathType := none }
  | _ => none

/-- `is_linear` of `convert_points` (f32 arithmetic). -/
def isLinear (p0 p1 p2 : Pos P) : Bool :=
  lt (Scalar.abs ((p1.y - p0.y) * (p2.x - p0.x) - (p1.x - p0.x) * (p2.y - p0.y))) (Scalar.eps : P)

/-- read all points, stopping at the first failure (`for … { push(read_point(..)?) }`). -/
def readPoints (F : Type) [Scalar F] (offset : Pos P) : List Str → Option (List (PathControlPoint P))
  | [] => some []
  | p :: ps =>
    match readPoint (F := F) p offset with
    | none => none
    | some v =>
      match readPoints F offset ps with
      | none => none
      | some vs => some (v :: vs)

def setPathTypeAt (vs : List (PathControlPoint P)) (i : Nat) (t : PathType) : List (PathControlPoint P) :=
  vs.modify i (fun v => { v with pathType := some t })

/-- the splitting loop at the end of `convert_points`:
`while { end_idx += 1; end_idx < vertices.len() - end_point_len }`. `fuel` bounds the iterations by the
number of vertices. Returns the vertices (types may have been set) and the extended `curve_points`. -/
def splitLoop (pathType : PathType) (limit : Nat) :
    Nat → List (PathControlPoint P) → List (PathControlPoint P) → Nat → Nat →
    List (PathControlPoint P) × List (PathControlPoint P) × Nat × Nat
  | 0, vs, cps, startIdx, endIdx => (vs, cps, startIdx, endIdx)
  | fuel + 1, vs, cps, startIdx, endIdx =>
    let endIdx := endIdx + 1
    if !(endIdx < limit) then (vs, cps, startIdx, endIdx)
    else
      match vs[endIdx]?, vs[endIdx - 1]? with
      | some a, some b =>
        if !Pos.eq a.pos b.pos then splitLoop pathType limit fuel vs cps startIdx endIdx
        else if pathType == PathType.catmull && endIdx > 1 then splitLoop pathType limit fuel vs cps startIdx endIdx
        else if endIdx == limit - 1 then splitLoop pathType limit fuel vs cps startIdx endIdx
        else
          let vs := setPathTypeAt vs (endIdx - 1) pathType
          let cps := cps ++ (vs.drop startIdx).take (endIdx - startIdx)
          splitLoop pathType limit fuel vs cps (endIdx + 1) endIdx
      | _, _ => (vs, cps, startIdx, endIdx)   -- unreachable: endIdx < limit ≤ vs.length

/-- `HitObjectsState::convert_points`. -/
def convertPoints (F : Type) [Scalar F] [Cvt P F] (st : HOCore F P) (points : List Str) (endPoint : Option Str)
    (first : Bool) (offset : Pos P) : HOCore F P × Bool :=
  match points with
  | [] => (st, false)
  | head :: tail =>
    let pathType := PathType.newFromStr head
    let endPointLen := if endPoint.isSome then 1 else 0
    -- `self.vertices.clear()`, then the pushes; a failing `read_point` returns with what was pushed so far
    let init : List (PathControlPoint P) := if first then [{ pos := Pos.zero, pathType := none }] else []
    match readPoints F offset tail with
    | none => ({ st with vertices := init }, false)   -- contents of the scratch `vertices` are not observed
    | some vs1 =>
      let endVs : Option (List (PathControlPoint P)) :=
        match endPoint with
        | none => some []
        | some e => (readPoint (F := F) e offset).map (fun v => [v])
      match endVs with
      | none => ({ st with vertices := init ++ vs1 }, false)
      | some ev =>
        let vs := init ++ vs1 ++ ev
        let pathType :=
          if pathType == PathType.perfect then
            match vs with
            | [a, b, c] => if isLinear a.pos b.pos c.pos then PathType.linear else pathType
            | _ => PathType.bezier
          else pathType
        match vs with
        | [] => ({ st with vertices := vs }, false)
        | v0 :: vrest =>
          let vs := { v0 with pathType := some pathType } :: vrest
          let limit := vs.length - endPointLen
          let (vs, cps, startIdx, endIdx) := splitLoop pathType limit (vs.length + 1) vs st.curvePoints 0 0
          let cps := if endIdx > startIdx then cps ++ (vs.drop startIdx).take (endIdx - startIdx) else cps
          ({ st with vertices := vs, curvePoints := cps }, true)

def firstIsAsciiAlpha (s : Str) : Option Bool :=
  match s with
  | [] => none
  | c :: _ => some (('a' ≤ c && c ≤ 'z') || ('A' ≤ c && c ≤ 'Z'))

/-- the segment loop of `convert_path_str` over the `|`-separated pieces. -/
def pathLoop (F : Type) [Scalar F] [Cvt P F] (pieces : List Str) (offset : Pos P) :
    Nat → HOCore F P → Nat → Nat → Bool → HOCore F P × Bool × Nat × Nat × Bool
  | 0, st, startIdx, endIdx, first => (st, true, startIdx, endIdx, first)
  | fuel + 1, st, startIdx, endIdx, first =>
    let endIdx := endIdx + 1
    if !(endIdx < pieces.length) then (st, true, startIdx, endIdx, first)
    else
      match pieces[endIdx]? with
      | none => (st, true, startIdx, endIdx, first)
      | some piece =>
        match firstIsAsciiAlpha piece with
        | none => (st, false, startIdx, endIdx, first)
        | some false => pathLoop F pieces offset fuel st startIdx endIdx first
        | some true =>
          let endPoint := pieces[endIdx + 1]?
          match convertPoints F st ((pieces.drop startIdx).take (endIdx - startIdx)) endPoint first offset with
          | (st', false) => (st', false, startIdx, endIdx, first)
          | (st', true) => pathLoop F pieces offset fuel st' endIdx endIdx false

/-- `HitObjectsState::convert_path_str`. -/
def convertPathStr (F : Type) [Scalar F] [Cvt P F] (st : HOCore F P) (pointStr : Str) (offset : Pos P) :
    HOCore F P × Bool :=
  let pieces := splitOn '|' pointStr
  match pathLoop F pieces offset (pieces.length + 1) st 0 0 true with
  | (st', false, _, _, _) => (st', false)
  | (st', true, startIdx, endIdx, first) =>
    if endIdx > startIdx then
      convertPoints F st' ((pieces.drop startIdx).take (endIdx - startIdx)) none first offset
    else (st', true)

/-- per-node `read_custom_sample_banks` over `zip(node_bank_infos, next.split('|'))`, stopping at the first error. -/
def readNodeBanks : List SampleBankInfo → List Str → Option (List SampleBankInfo)
  | [], _ => some []
  | infos, [] => some infos
  | i :: is, s :: ss =>
    match i.readCustomSampleBanks (splitOn ':' s) false with
    | (_, false) => none
    | (i', true) => (readNodeBanks is ss).map (i' :: ·)

def readNodeSounds : List Int → List Str → List Int
  | [], _ => []
  | snds, [] => snds
  | _ :: is, s :: ss => ((HitSoundType.parse s).getD 0) :: readNodeSounds is ss

def optNonEmpty (s : Option Str) : Option Str :=
  match s with
  | some x => if x.isEmpty then none else some x
  | none => none

def typeCircle : Nat := 0
def typeSlider : Nat := 1
def typeNewCombo : Nat := 2
def typeSpinner : Nat := 3
def typeHold : Nat := 7

/-- `HitObjects::parse_hit_objects` (the hit-object part of the state; `mode` is `state.timing_points.mode()`). -/
def parseHitObjectLine (mode : GameMode) (st : HOCore F P) (line : Str) : HOCore F P × Bool :=
  match splitOn ',' (trimComment line) with
  | xs :: ys :: startTimeS :: kindS :: soundS :: rest =>
    match (floatParseWithLimits xs (Scalar.ofInt maxCoordinate) : Option P) with
    | none => (st, false)
    | some xv =>
    match (floatParseWithLimits ys (Scalar.ofInt maxCoordinate) : Option P) with
    | none => (st, false)
    | some yv =>
    let pos : Pos P := ⟨Scalar.ofInt (Scalar.toI32 xv), Scalar.ofInt (Scalar.toI32 yv)⟩
    match (floatParse startTimeS : Option F) with
    | none => (st, false)
    | some startTime =>
    match i32FromStr kindS with
    | none => (st, false)
    | some ty0 =>
    let comboOffset := (ty0 / 16) % 8
    let ty1 := ty0 - comboOffset * 16
    let newCombo := testBit ty1 typeNewCombo
    let ty := if newCombo then ty1 - 4 else ty1
    match HitSoundType.parse soundS with
    | none => (st, false)
    | some soundType =>
    let bankInfo : SampleBankInfo := {}
    let firstObject := st.lastObject.isNone
    let lastWasSpinner := match st.lastObject with | some k => testBit k typeSpinner | none => false
    let finish (st : HOCore F P) (kind : HitObjectKind F P) (bankInfo : SampleBankInfo) : HOCore F P × Bool :=
      ({ st with lastObject := some ty
                 hitObjects := st.hitObjects ++ [{ startTime := startTime, kind := kind,
                                                   samples := bankInfo.convertSoundType soundType }] }, true)
    if testBit ty typeCircle then
      let r := match rest with
        | s :: _ => bankInfo.readCustomSampleBanks (splitOn ':' s) false
        | [] => (bankInfo, true)
      match r with
      | (_, false) => (st, false)
      | (bankInfo, true) =>
        finish st (.circle { pos := pos, newCombo := firstObject || lastWasSpinner || newCombo,
                             comboOffset := if newCombo then comboOffset else 0 }) bankInfo
    else if testBit ty typeSlider then
      match rest with
      | pointStr :: repeatS :: rest2 =>
        match i32Parse repeatS with
        | none => (st, false)
        | some rc0 =>
          if rc0 > 9000 then (st, false) else
          let repeatCount := if rc0 - 1 < 0 then 0 else rc0 - 1
          let lenR : Option (Option F) :=
            match rest2 with
            | next :: _ =>
              match (floatParseWithLimits next (Scalar.ofInt maxCoordinate) : Option F) with
              | none => none
              | some l =>
                let newLen := Scalar.max l 0
                some (if le (Scalar.eps : F) (Scalar.abs newLen) then some newLen else none)
            | [] => some none
          match lenR with
          | none => (st, false)
          | some len =>
            let next8 := (rest2.drop 1).head?
            let next9 := (rest2.drop 2).head?
            let r := match (rest2.drop 3).head? with
              | some s => bankInfo.readCustomSampleBanks (splitOn ':' s) true
              | none => (bankInfo, true)
            match r with
            | (_, false) => (st, false)
            | (bankInfo, true) =>
              let nodes := repeatCount.toNat + 2
              let nodeBankInfos0 := List.replicate nodes bankInfo
              let nodeBanksR := match optNonEmpty next9 with
                | some s => readNodeBanks nodeBankInfos0 (splitOn '|' s)
                | none => some nodeBankInfos0
              match nodeBanksR with
              | none => (st, false)
              | some nodeBankInfos =>
                let nodeSounds0 := List.replicate nodes soundType
                let nodeSounds := match optNonEmpty next8 with
                  | some s => readNodeSounds nodeSounds0 (splitOn '|' s)
                  | none => nodeSounds0
                let nodeSamples := (nodeBankInfos.zip nodeSounds).map fun (b, s) => b.convertSoundType s
                match convertPathStr F st pointStr pos with
                | (st', false) => (st', false)
                | (st', true) =>
                  let controlPoints := st'.curvePoints
                  let st' := { st' with curvePoints := [] }
                  finish st' (.slider
                    { pos := pos, newCombo := firstObject || lastWasSpinner || newCombo,
                      comboOffset := if newCombo then comboOffset else 0,
                      path := { mode := mode, controlPoints := controlPoints, expectedDist := len },
                      nodeSamples := nodeSamples, repeatCount := repeatCount, velocity := 1 }) bankInfo
      | _ => (st, false)
    else if testBit ty typeSpinner then
      match rest with
      | durS :: rest2 =>
        match (floatParse durS : Option F) with
        | none => (st, false)
        | some d =>
          let duration := Scalar.max (d - startTime) 0
          let r := match rest2 with
            | s :: _ => bankInfo.readCustomSampleBanks (splitOn ':' s) false
            | [] => (bankInfo, true)
          match r with
          | (_, false) => (st, false)
          | (bankInfo, true) =>
            finish st (.spinner { pos := ⟨(512 : P) / 2, (384 : P) / 2⟩, duration := duration, newCombo := newCombo }) bankInfo
      | [] => (st, false)
    else if testBit ty typeHold then
      let endTime0 := Scalar.max startTime startTime
      let r : Option (F × SampleBankInfo) :=
        match optNonEmpty rest.head? with
        | none => some (endTime0, bankInfo)
        | some s =>
          match splitOn ':' s with
          | [] => none
          | e :: ss =>
            match (floatParse e : Option F) with
            | none => none
            | some newEnd =>
              match bankInfo.readCustomSampleBanks ss false with
              | (_, false) => none
              | (bi, true) => some (Scalar.max startTime newEnd, bi)
      match r with
      | none => (st, false)
      | some (endTime, bankInfo) =>
        finish st (.hold { posX := pos.x, duration := endTime - startTime }) bankInfo
    else (st, false)
  | _ => (st, false)

end Rosu
