/-
  Model/Basic.lean — small types shared by the section, hit-object, curve and encoder models:
  `GameMode`, `SampleBank`, `CountdownType`, `Pos` (src/util/pos.rs), `PathType`, `PathControlPoint`.
-/
import RosuModel.Model.Scalar
namespace Rosu

inductive GameMode | osu | taiko | catch | mania
  deriving DecidableEq, Repr, Inhabited

def GameMode.idx : GameMode → Nat
  | .osu => 0 | .taiko => 1 | .catch => 2 | .mania => 3

def GameMode.ofIdx : Nat → GameMode
  | 1 => .taiko | 2 => .catch | 3 => .mania | _ => .osu

/-- `<GameMode as FromStr>::from_str`. -/
def GameMode.parse (s : Str) : Option GameMode :=
  if s == str "0" then some .osu else if s == str "1" then some .taiko
  else if s == str "2" then some .catch else if s == str "3" then some .mania else none

inductive SampleBank | none | normal | soft | drum
  deriving DecidableEq, Repr, Inhabited

def SampleBank.idx : SampleBank → Nat
  | .none => 0 | .normal => 1 | .soft => 2 | .drum => 3

/-- `<SampleBank as FromStr>::from_str`. (Inside the `SampleBank`/`CountdownType` namespaces a bare
`none` would resolve to the constructor `SampleBank.none`, hence the explicit `Option.none`.) -/
def SampleBank.parse (s : Str) : Option SampleBank :=
  if s == str "0" || s == str "None" then some .none
  else if s == str "1" || s == str "Normal" then some .normal
  else if s == str "2" || s == str "Soft" then some .soft
  else if s == str "3" || s == str "Drum" then some .drum
  else Option.none

/-- `<SampleBank as TryFrom<i32>>::try_from`. -/
def SampleBank.ofInt (n : Int) : Option SampleBank :=
  if n = 0 then some .none else if n = 1 then some .normal
  else if n = 2 then some .soft else if n = 3 then some .drum else Option.none

inductive CountdownType | none | normal | halfSpeed | doubleSpeed
  deriving DecidableEq, Repr, Inhabited

def CountdownType.idx : CountdownType → Nat
  | .none => 0 | .normal => 1 | .halfSpeed => 2 | .doubleSpeed => 3

/-- `<CountdownType as FromStr>::from_str`. -/
def CountdownType.parse (s : Str) : Option CountdownType :=
  if s == str "0" || s == str "None" then some .none
  else if s == str "1" || s == str "Normal" then some .normal
  else if s == str "2" || s == str "Half speed" then some .halfSpeed
  else if s == str "3" || s == str "Double speed" then some .doubleSpeed
  else Option.none

/-- `util::Pos` over the f32-side scalar `P`. -/
structure Pos (P : Type) where
  x : P
  y : P
  deriving Repr

namespace Pos
variable {P F : Type} [Scalar P] [Scalar F] [Cvt P F]

def zero : Pos P := ⟨0, 0⟩
instance : Inhabited (Pos P) := ⟨zero⟩
def add (a b : Pos P) : Pos P := ⟨a.x + b.x, a.y + b.y⟩
def sub (a b : Pos P) : Pos P := ⟨a.x - b.x, a.y - b.y⟩
def smul (a : Pos P) (k : P) : Pos P := ⟨a.x * k, a.y * k⟩
def sdiv (a : Pos P) (k : P) : Pos P := ⟨a.x / k, a.y / k⟩
instance : Add (Pos P) := ⟨add⟩
instance : Sub (Pos P) := ⟨sub⟩
/-- derived `PartialEq`: component-wise IEEE `==`. -/
def eq (a b : Pos P) : Bool := Scalar.eq a.x b.x && Scalar.eq a.y b.y
def dot (a b : Pos P) : P := (a.x * b.x) + (a.y * b.y)
def lengthSquared (a : Pos P) : P := dot a a
/-- `f64::from(x*x + y*y).sqrt() as f32` -/
def length (F : Type) [Scalar F] [Cvt P F] (a : Pos P) : P :=
  Cvt.down (Scalar.sqrt (Cvt.up (a.x * a.x + a.y * a.y) : F))
def distance (F : Type) [Scalar F] [Cvt P F] (a b : Pos P) : P := length F (a - b)
/-- `Pos::normalize`: multiply by `length().recip()`. -/
def normalize (F : Type) [Scalar F] [Cvt P F] (a : Pos P) : Pos P :=
  let scale := Scalar.recip (length F a)
  ⟨a.x * scale, a.y * scale⟩
end Pos

inductive SplineType | catmull | bspline | linear | perfectCurve
  deriving DecidableEq, Repr, Inhabited

/-- `PathType`: `degree` is a `NonZeroI32` when present. -/
structure PathType where
  kind : SplineType
  degree : Option Int := none
  deriving DecidableEq, Repr, Inhabited

def PathType.catmull : PathType := ⟨.catmull, none⟩
def PathType.bezier : PathType := ⟨.bspline, none⟩
def PathType.linear : PathType := ⟨.linear, none⟩
def PathType.perfect : PathType := ⟨.perfectCurve, none⟩

structure PathControlPoint (P : Type) where
  pos : Pos P
  pathType : Option PathType := none
  deriving Repr

end Rosu
