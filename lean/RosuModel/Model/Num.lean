/-
  Model/Num.lean — integer parsing exactly as Rust's `FromStr` for `i32`/`u8`
  and rosu-map's `ParseNumber for i32`.
-/
import RosuModel.Model.Text
namespace Rosu

def digitVal (c : Char) : Option Nat :=
  if '0'.toNat ≤ c.toNat ∧ c.toNat ≤ '9'.toNat then some (c.toNat - '0'.toNat) else none

/-- value of a digit string given an accumulator; `none` on a non-digit. -/
def digitsAcc : Nat → Str → Option Nat
  | acc, [] => some acc
  | acc, c :: cs =>
    match digitVal c with
    | some d => digitsAcc (acc * 10 + d) cs
    | none => none

/-- non-empty string of ASCII digits. -/
def parseDigits : Str → Option Nat
  | [] => none
  | s => digitsAcc 0 s

def i32Max : Int := 2147483647
def i32Min : Int := -2147483648

/-- Rust `<i32 as FromStr>::from_str`. -/
def i32FromStr (s : Str) : Option Int :=
  match s with
  | [] => none
  | c :: r =>
    if c == '-' then
      match parseDigits r with
      | some n => if -(n : Int) < i32Min then none else some (-(n : Int))
      | none => none
    else if c == '+' then
      match parseDigits r with
      | some n => if (n : Int) > i32Max then none else some n
      | none => none
    else
      match parseDigits (c :: r) with
      | some n => if (n : Int) > i32Max then none else some n
      | none => none

/-- Rust `<u8 as FromStr>::from_str`. -/
def u8FromStr (s : Str) : Option Nat :=
  match s with
  | [] => none
  | c :: r =>
    if c == '+' then
      match parseDigits r with
      | some n => if n > 255 then none else some n
      | none => none
    else
      match parseDigits (c :: r) with
      | some n => if n > 255 then none else some n
      | none => none

/-- rosu-map `<i32 as ParseNumber>::parse_with_limits`. -/
def i32ParseWithLimits (s : Str) (limit : Int) : Option Int :=
  match i32FromStr (trim s) with
  | some n => if n < -limit then none else if n > limit then none else some n
  | none => none

/-- rosu-map `<i32 as ParseNumber>::parse` (`MAX_PARSE_VALUE = i32::MAX`). -/
def i32Parse (s : Str) : Option Int := i32ParseWithLimits s i32Max

end Rosu

namespace Rosu

/-- decimal digits of a natural number, most significant first (`Display for u32/i32`), written
so that it is provably inverse to `parseDigits`. `fuel` only has to exceed the number of digits. -/
def decDigitsAux : Nat → Nat → Str → Str
  | 0, _, acc => acc
  | fuel + 1, n, acc =>
    let acc' := Char.ofNat ('0'.toNat + n % 10) :: acc
    if n < 10 then acc' else decDigitsAux fuel (n / 10) acc'

def decDigits (n : Nat) : Str := decDigitsAux (n + 1) n []

/-- `Display for i32`. -/
def intDigits (n : Int) : Str :=
  if n < 0 then '-' :: decDigits n.natAbs else decDigits n.natAbs

end Rosu
