/-
  Model/FloatCodec.lean — exact decimal ↔ binary conversion for IEEE-754 binary32/binary64,
  written on `Nat`/`Int` so that it does not depend on any library rounding:
  * `parseBits fmt s`  = bit pattern of Rust's `s.parse::<f32/f64>()` (correctly rounded), or `none`
  * `printBits fmt b`  = Rust's `Display` of the float with bit pattern `b` (shortest digits that
    round-trip, closest to the value among the shortest, positional notation, no exponent).
  It is validated against Rust by the `codec` differential on every run of the checks that use numbers, and
  Lemmas/FloatCodecLaws*.lean prove `parseBits f (printBits f b) = some b` for every non-NaN pattern `b`.
-/
import RosuModel.Model.Num
namespace Rosu

structure FloatFmt where
  p : Nat        -- precision in bits, including the hidden bit (24 / 53)
  ebits : Nat    -- exponent field width (8 / 11)

def fmt32 : FloatFmt := ⟨24, 8⟩
def fmt64 : FloatFmt := ⟨53, 11⟩

namespace FloatFmt
def bias (f : FloatFmt) : Int := (2 : Int) ^ (f.ebits - 1) - 1
/-- exponent of the least significant mantissa bit of subnormals -/
def eminSub (f : FloatFmt) : Int := 1 - f.bias - (f.p - 1 : Nat)
def emax (f : FloatFmt) : Int := f.bias
def signBit (f : FloatFmt) : Nat := 2 ^ (f.ebits + f.p - 1)
def infBits (f : FloatFmt) : Nat := (2 ^ f.ebits - 1) * 2 ^ (f.p - 1)
def nanBits (f : FloatFmt) : Nat := f.infBits + 2 ^ (f.p - 2)
end FloatFmt

def bitLen (n : Nat) : Nat := if n = 0 then 0 else n.log2 + 1

/-- round the positive rational `num/den` to the format, ties to even; returns the bit pattern
(without sign). -/
def roundRat (f : FloatFmt) (num den : Nat) : Nat :=
  if num = 0 then 0 else
  -- first guess for the exponent of the last mantissa bit
  let k : Int := (bitLen num : Int) - (bitLen den : Int)
  let e0 : Int := k - f.p
  let e1 : Int := if e0 < f.eminSub then f.eminSub else e0
  let quot (e : Int) : Nat × Nat × Nat :=
    let (n, d) := if e < 0 then (num * 2 ^ (-e).toNat, den) else (num, den * 2 ^ e.toNat)
    (n / d, n % d, d)
  -- make sure the quotient has at most p bits
  let e2 : Int := if (quot e1).1 ≥ 2 ^ f.p then e1 + 1 else e1
  let e3 : Int := if (quot e2).1 ≥ 2 ^ f.p then e2 + 1 else e2
  let (q, r, d) := quot e3
  let q := if 2 * r > d || (2 * r == d && q % 2 == 1) then q + 1 else q
  let (q, e) : Nat × Int := if q == 2 ^ f.p then (2 ^ (f.p - 1), e3 + 1) else (q, e3)
  if q < 2 ^ (f.p - 1) then q            -- subnormal (e = eminSub), or zero
  else
    let expField : Int := e + (f.p - 1 : Nat) + f.bias
    if expField ≥ 2 ^ f.ebits - 1 then f.infBits
    else expField.toNat * 2 ^ (f.p - 1) + (q - 2 ^ (f.p - 1))

def lower (c : Char) : Char := if 'A' ≤ c ∧ c ≤ 'Z' then Char.ofNat (c.toNat + 32) else c

/-- split leading ASCII digits. -/
def spanDigits : Str → Str × Str
  | [] => ([], [])
  | c :: cs =>
    match digitVal c with
    | some _ => let (a, b) := spanDigits cs; (c :: a, b)
    | none => ([], c :: cs)

def digitsToNat (s : Str) : Nat := s.foldl (fun acc c => acc * 10 + (c.toNat - 48)) 0

/-- Rust `dec2flt` grammar on the unsigned part: mantissa digits, exponent. -/
def parseDecimal (s : Str) : Option (Nat × Int) :=
  let (ip, r1) := spanDigits s
  let (fp, r2) : Str × Str :=
    match r1 with
    | c :: cs => if c == '.' then spanDigits cs else ([], r1)
    | [] => ([], [])
  if ip.isEmpty && fp.isEmpty then none else
  let mant := digitsToNat (ip ++ fp)
  let e0 : Int := -(fp.length : Int)
  match r2 with
  | [] => some (mant, e0)
  | c :: cs =>
    if c == 'e' || c == 'E' then
      let (neg, ds) : Bool × Str :=
        match cs with
        | x :: xs => if x == '-' then (true, xs) else if x == '+' then (false, xs) else (false, cs)
        | [] => (false, [])
      let (ed, r3) := spanDigits ds
      if ed.isEmpty || !r3.isEmpty then none
      else
        let ev : Int := digitsToNat ed
        some (mant, e0 + (if neg then -ev else ev))
    else none

/-- bit pattern of `s.parse::<fN>()`. -/
def parseBits (f : FloatFmt) (s : Str) : Option Nat :=
  let (neg, body) : Bool × Str :=
    match s with
    | c :: cs => if c == '-' then (true, cs) else if c == '+' then (false, cs) else (false, s)
    | [] => (false, [])
  let sign := if neg then f.signBit else 0
  let low := body.map lower
  if low == str "nan" then some f.nanBits   -- sign of NaN is not observable through rosu-map
  else if low == str "inf" || low == str "infinity" then some (sign + f.infBits)
  else
    match parseDecimal body with
    | none => none
    | some (m, e) =>
      if m = 0 then some sign
      else
        let nd : Int := (toString m).length
        if e + nd > 400 then some (sign + f.infBits)
        else if e + nd < -400 then some sign
        else if e ≥ 0 then some (sign + roundRat f (m * 10 ^ e.toNat) 1)
        else some (sign + roundRat f m (10 ^ (-e).toNat))

/-- decompose a finite non-zero bit pattern (sign stripped): value = m · 2^e. -/
def decompose (f : FloatFmt) (b : Nat) : Nat × Int :=
  let expField := b / 2 ^ (f.p - 1)
  let frac := b % 2 ^ (f.p - 1)
  if expField = 0 then (frac, f.eminSub)
  else (frac + 2 ^ (f.p - 1), (expField : Int) - f.bias - (f.p - 1 : Nat))

/-- compare rationals a/b and c/d (positive denominators). -/
def ratCmp (a b c d : Nat) : Ordering := compare (a * d) (c * b)

/-- shortest decimal digits `(digits, k)` with value `digits · 10^k` that round-trip. -/
def shortestDigits (f : FloatFmt) (b : Nat) : Nat × Int :=
  let (m, e) := decompose f b
  -- v = vn/vd ; interval [lo, hi] as rationals over the common denominator 2*vd scaled
  -- work with everything multiplied so that ulp/2 is an integer: scale = 2^(1 - e') ...
  -- v = m·2^e. neighbours: hi = (2m+1)·2^(e-1); lo = (2m-1)·2^(e-1), except at a power of two
  -- where the lower gap is half: lo = (4m-1)·2^(e-2).
  let pow2boundary := (m == 2 ^ (f.p - 1)) && (b / 2 ^ (f.p - 1) > 1)
  -- common exponent e-2:  v = 4m, hi = 4m+2, lo = 4m-2 or 4m-1, all times 2^(e-2)
  let vN := 4 * m
  let hiN := 4 * m + 2
  let loN := if pow2boundary then 4 * m - 1 else 4 * m - 2
  let e2 : Int := e - 2
  -- as rationals: x·2^e2 = x·num2/den2
  let num2 := if e2 ≥ 0 then 2 ^ e2.toNat else 1
  let den2 := if e2 ≥ 0 then 1 else 2 ^ (-e2).toNat
  let closed := m % 2 == 0
  -- floor(log10 v): estimate from bit length then correct
  let vNum := vN * num2
  let vDen := den2
  let est : Int := (((bitLen vNum : Int) - (bitLen vDen : Int)) * 30103) / 100000
  let pow10le (k : Int) : Bool :=   -- 10^k ≤ v ?
    if k ≥ 0 then 10 ^ k.toNat * vDen ≤ vNum else vDen ≤ vNum * 10 ^ (-k).toNat
  let l0 := est - 2
  let l1 := if pow10le (l0 + 1) then l0 + 1 else l0
  let l2 := if pow10le (l1 + 1) then l1 + 1 else l1
  let l3 := if pow10le (l2 + 1) then l2 + 1 else l2
  let l4 := if pow10le (l3 + 1) then l3 + 1 else l3
  let log10v := l4
  let inInterval (c : Nat) (k : Int) : Bool :=
    -- c·10^k within [lo,hi]
    let (cn, cd) : Nat × Nat := if k ≥ 0 then (c * 10 ^ k.toNat, 1) else (c, 10 ^ (-k).toNat)
    let cmpLo := ratCmp cn cd (loN * num2) den2
    let cmpHi := ratCmp cn cd (hiN * num2) den2
    if closed then cmpLo != .lt && cmpHi != .gt else cmpLo == .gt && cmpHi == .lt
  let rec go (n : Nat) (fuel : Nat) : Nat × Int :=
    match fuel with
    | 0 =>
      -- not reached in practice (17 digits always suffice; that is not proved and not needed): fall back to
      -- the exact decimal expansion of v = m·2^e, which is trivially inside the rounding interval
      if e ≥ 0 then (m * 2 ^ e.toNat, 0) else (m * 5 ^ (-e).toNat, e)
    | fuel + 1 =>
      let k : Int := log10v - (n - 1 : Nat)
      -- scaled = v / 10^k
      let (sn, sd) : Nat × Nat :=
        if k ≥ 0 then (vNum, vDen * 10 ^ k.toNat) else (vNum * 10 ^ (-k).toNat, vDen)
      let dLo := sn / sd
      let dHi := dLo + 1
      let okLo := inInterval dLo k
      let okHi := inInterval dHi k
      -- distance comparison: v - dLo·10^k  vs dHi·10^k - v  ⇔ 2·sn vs (dLo+dHi)·sd
      let preferHi := match compare (2 * sn) ((dLo + dHi) * sd) with
        | .gt => true | .lt => false | .eq => true
      if okLo && okHi then (if preferHi then (dHi, k) else (dLo, k))
      else if okLo then (dLo, k)
      else if okHi then (dHi, k)
      else go (n + 1) fuel
  go 1 20

def natDigits (n : Nat) : Str := (toString n).toList

/-- positional rendering of `digits · 10^k` as Rust's `Display` does (no exponent form). -/
def renderDecimal (digits : Nat) (k : Int) : Str :=
  -- strip trailing zeros of digits into k
  let rec strip (d : Nat) (k : Int) (fuel : Nat) : Nat × Int :=
    match fuel with
    | 0 => (d, k)
    | fuel + 1 => if d != 0 && d % 10 == 0 then strip (d / 10) (k + 1) fuel else (d, k)
  let (d, k) := strip digits k 40
  let ds := natDigits d
  if k ≥ 0 then ds ++ List.replicate k.toNat '0'
  else
    let nfrac := (-k).toNat
    if ds.length > nfrac then
      ds.take (ds.length - nfrac) ++ ['.'] ++ ds.drop (ds.length - nfrac)
    else
      str "0." ++ List.replicate (nfrac - ds.length) '0' ++ ds

/-- Rust `Display` for the float with bit pattern `b`. -/
def printBits (f : FloatFmt) (b : Nat) : Str :=
  let neg := b ≥ f.signBit
  let mag := b % f.signBit
  if mag > f.infBits then str "NaN"
  else
    let body :=
      if mag == f.infBits then str "inf"
      else if mag == 0 then str "0"
      else
        let (d, k) := shortestDigits f mag
        renderDecimal d k
    if neg then '-' :: body else body

end Rosu
