/-
  Model/Writer.lean — the `Write` side of `Beatmap::encode` (`src/encode.rs`): a sequence of
  `write_all` calls (`write!`/`writeln!` reach the writer through `write_all` as well) followed by
  one `flush`, every result propagated with `?`.

  A writer is modelled by what its `write` calls will do next. `accept n` is a budget: the writer
  takes up to `n` more bytes, over as many calls as that needs (a call offering more than the
  budget is a short write); every possible run of a real writer is such a schedule with each
  budget used up by exactly one call.
-/
import RosuModel.Model.Reader
namespace Rosu

inductive WEv
  | accept (n : Nat)   -- the next calls take up to `n` bytes in total
  | intr               -- the next call returns `Err(Interrupted)`
  | zero               -- the next call returns `Ok(0)`
  | fail (k : IoKind)  -- the next call returns `Err(k)`
  deriving Repr

abbrev WSched := List WEv

/-- what is left of a budget. -/
def pushBudget (n : Nat) (w : WSched) : WSched := if n = 0 then w else .accept n :: w

/-- `Write::write_all` per std's loop: retry on `Interrupted`, `Ok(0)` is `WriteZero`, a short
write continues with the rest. Returns the result, the writer's remaining schedule and the bytes
the writer accepted during this call. An exhausted schedule accepts everything. -/
def writeAll : WSched → List UInt8 → Except IoKind Unit × WSched × List UInt8
  | [], buf => (.ok (), [], buf)
  | e :: w, buf =>
    if buf.isEmpty then (.ok (), e :: w, [])
    else
      match e with
      | .accept n =>
        if buf.length ≤ n then (.ok (), pushBudget (n - buf.length) w, buf)
        else
          let r := writeAll w (buf.drop n)
          (r.1, r.2.1, buf.take n ++ r.2.2)
      | .intr => writeAll w buf
      | .zero => (.error .writeZero, w, [])
      | .fail k => (.error k, w, [])

/-- the `write_all` calls of `encode`, each followed by `?`. -/
def writeCalls : WSched → List (List UInt8) → Except IoKind Unit × WSched × List UInt8
  | w, [] => (.ok (), w, [])
  | w, c :: cs =>
    match writeAll w c with
    | (.error k, w', acc) => (.error k, w', acc)
    | (.ok (), w', acc) =>
      let r := writeCalls w' cs
      (r.1, r.2.1, acc ++ r.2.2)

structure WResult where
  result : Except IoKind Unit
  written : List UInt8
  flushed : Bool
  deriving Repr

/-- `Beatmap::encode(writer)`: all writes, then `writer.flush()` whose result is the result. -/
def encodeTo (w : WSched) (fl : Except IoKind Unit) (calls : List (List UInt8)) : WResult :=
  match writeCalls w calls with
  | (.error k, _, acc) => { result := .error k, written := acc, flushed := false }
  | (.ok (), _, acc) => { result := fl, written := acc, flushed := true }

end Rosu
