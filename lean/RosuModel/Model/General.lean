/-
  Model/General.lean — `src/section/general/decode.rs`: `GeneralKey`, `General` (= `GeneralState`),
  `General::parse_general`.

  Parsers return `(result, state)`, so a mutation that precedes an error would be representable;
  `parse_general` has none: every `?` sits on the right-hand side of its assignment
  (`C12`/`C06` use `parseGeneral_error_state`).
-/
import RosuModel.Model.KeyValue
import RosuModel.Model.ParseNum
import RosuModel.Model.Basic
namespace Rosu

/-- `section_keys! { pub enum GeneralKey … }`. -/
inductive GeneralKey
  | audioFilename | audioLeadIn | previewTime | sampleSet | sampleVolume | stackLeniency | mode
  | letterboxInBreaks | specialStyle | widescreenStoryboard | epilepsyWarning
  | samplesMatchPlaybackRate | countdown | countdownOffset
  deriving DecidableEq, Repr

/-- `<GeneralKey as FromStr>::from_str` (the variant names, exactly). -/
def GeneralKey.parse (s : Str) : Option GeneralKey :=
  if s == str "AudioFilename" then some .audioFilename
  else if s == str "AudioLeadIn" then some .audioLeadIn
  else if s == str "PreviewTime" then some .previewTime
  else if s == str "SampleSet" then some .sampleSet
  else if s == str "SampleVolume" then some .sampleVolume
  else if s == str "StackLeniency" then some .stackLeniency
  else if s == str "Mode" then some .mode
  else if s == str "LetterboxInBreaks" then some .letterboxInBreaks
  else if s == str "SpecialStyle" then some .specialStyle
  else if s == str "WidescreenStoryboard" then some .widescreenStoryboard
  else if s == str "EpilepsyWarning" then some .epilepsyWarning
  else if s == str "SamplesMatchPlaybackRate" then some .samplesMatchPlaybackRate
  else if s == str "Countdown" then some .countdown
  else if s == str "CountdownOffset" then some .countdownOffset
  else Option.none

/-- `ParseGeneralError`. -/
inductive GeneralErr
  | countdownType | mode | number (e : NumErr) | sampleBank
  deriving DecidableEq, Repr

def GeneralErr.tag : GeneralErr → String
  | .countdownType => "CountdownType" | .mode => "Mode" | .number e => "Number." ++ e.tag
  | .sampleBank => "SampleBank"

/-- `General` / `GeneralState`; `F` = f64, `P` = f32 (`stack_leniency`). -/
structure GeneralState (F P : Type) where
  audioFile : Str
  audioLeadIn : F
  previewTime : Int
  defaultSampleBank : SampleBank
  defaultSampleVolume : Int
  stackLeniency : P
  mode : GameMode
  letterboxInBreaks : Bool
  specialStyle : Bool
  widescreenStoryboard : Bool
  epilepsyWarning : Bool
  samplesMatchPlaybackRate : Bool
  countdown : CountdownType
  countdownOffset : Int

section
variable {F P : Type} [Scalar F] [Scalar P]

/-- `General::default` (= `GeneralState::create(version)`). -/
def GeneralState.default : GeneralState F P :=
  { audioFile := [], audioLeadIn := 0, previewTime := -1, defaultSampleBank := SampleBank.none,
    defaultSampleVolume := 100, stackLeniency := (0.7 : P), mode := GameMode.osu,
    letterboxInBreaks := false, specialStyle := false, widescreenStoryboard := false,
    epilepsyWarning := false, samplesMatchPlaybackRate := false,
    countdown := CountdownType.normal, countdownOffset := 0 }

/-- `state.<field> = i32::parse(value)?…`: run `k` on the parsed number, or fail leaving `st` untouched. -/
def withI32 (st : GeneralState F P) (value : Str) (k : Int → GeneralState F P) :
    Except GeneralErr Unit × GeneralState F P :=
  match i32ParseE value with
  | .ok n => (.ok (), k n)
  | .error e => (.error (.number e), st)

/-- `<General as DecodeBeatmap>::parse_general`. -/
def parseGeneral (st : GeneralState F P) (line : Str) : Except GeneralErr Unit × GeneralState F P :=
  let kv := kvSplit (trimComment line)
  let value := kv.2
  match GeneralKey.parse kv.1 with
  | Option.none => (.ok (), st)
  | some key =>
    match key with
    | .audioFilename => (.ok (), { st with audioFile := toStandardizedPath value })
    | .audioLeadIn => withI32 st value fun n => { st with audioLeadIn := Scalar.ofInt n }
    | .previewTime => withI32 st value fun n => { st with previewTime := n }
    | .sampleSet =>
      match SampleBank.parse value with
      | some b => (.ok (), { st with defaultSampleBank := b })
      | Option.none => (.error .sampleBank, st)
    | .sampleVolume => withI32 st value fun n => { st with defaultSampleVolume := n }
    | .stackLeniency =>
      match (scalarParse value : Except NumErr P) with
      | .ok x => (.ok (), { st with stackLeniency := x })
      | .error e => (.error (.number e), st)
    | .mode =>
      match GameMode.parse value with
      | some m => (.ok (), { st with mode := m })
      | Option.none => (.error .mode, st)
    | .letterboxInBreaks => withI32 st value fun n => { st with letterboxInBreaks := n == 1 }
    | .specialStyle => withI32 st value fun n => { st with specialStyle := n == 1 }
    | .widescreenStoryboard => withI32 st value fun n => { st with widescreenStoryboard := n == 1 }
    | .epilepsyWarning => withI32 st value fun n => { st with epilepsyWarning := n == 1 }
    | .samplesMatchPlaybackRate => withI32 st value fun n => { st with samplesMatchPlaybackRate := n == 1 }
    | .countdown =>
      match CountdownType.parse value with
      | some c => (.ok (), { st with countdown := c })
      | Option.none => (.error .countdownType, st)
    | .countdownOffset => withI32 st value fun n => { st with countdownOffset := n }

end
end Rosu
