/-
  Model/Encode.lean — src/encode.rs: `Beatmap::encode` and everything below it
  (`encode_*`, `ControlPointProperties`, control-point groups, `collect_samples`, `slider_events`,
  `juicestream_events`, `add_path_data`, `get_sample_bank`).

  The output is the text the Rust writes (`Str`); the only way the model can fail is the curve code
  (`CErr.panic` / `CErr.fuel`) and the `f64::clamp` assertion inside `SliderEventsIter::new`
  (reported as `CErr.panic`).
-/
import RosuModel.Model.Finalize
import RosuModel.Model.SliderEvents
namespace Rosu
namespace Encode
open Scalar

variable {F P : Type} [Scalar F] [Scalar P] [Cvt P F] [Trig F] [Trig P]

def showInt (n : Int) : Str := intDigits n
def showNat (n : Nat) : Str := decDigits n
def showF (x : F) : Str := Scalar.print x
def showP (x : P) : Str := Scalar.print x
def b01 (b : Bool) : Str := if b then ['1'] else ['0']
def nl : Str := ['\n']

/-- `"{key}: {value}\n"` -/
def kvLine (key : String) (value : Str) : Str := key.toList ++ str ": " ++ value ++ nl

/-- `Beatmap::encode_general`. -/
def encodeGeneral (m : Beatmap F P) : Str :=
  let g := m.general
  let sampleSet : SampleBank := match m.controlPoints.samplePoints.head? with
    | some sp => sp.sampleBank
    | none => SampleBank.normal
  str "[General]\n" ++
  kvLine "AudioFilename" g.audioFile ++
  kvLine "AudioLeadIn" (showF g.audioLeadIn) ++
  kvLine "PreviewTime" (showInt g.previewTime) ++
  kvLine "Countdown" (showNat g.countdown.idx) ++
  kvLine "SampleSet" (showNat sampleSet.idx) ++
  kvLine "StackLeniency" (showP g.stackLeniency) ++
  kvLine "Mode" (showNat g.mode.idx) ++
  kvLine "LetterboxInBreaks" (b01 g.letterboxInBreaks) ++
  (if g.epilepsyWarning then kvLine "EpilepsyWarning" ['1'] else []) ++
  (if g.countdownOffset > 0 then kvLine "CountdownOffset" (showInt g.countdownOffset) else []) ++
  (if g.mode == GameMode.mania then kvLine "SpecialStyle" (b01 g.specialStyle) else []) ++
  kvLine "WidescreenStoryboard" (b01 g.widescreenStoryboard) ++
  (if g.samplesMatchPlaybackRate then kvLine "SamplesMatchPlaybackRate" ['1'] else [])

def joinComma (xs : List Str) : Str :=
  match xs with
  | [] => []
  | x :: rest => x ++ rest.flatMap (fun y => ',' :: y)

/-- `Beatmap::encode_editor`. -/
def encodeEditor (m : Beatmap F P) : Str :=
  let e := m.editor
  str "[Editor]\n" ++
  (if e.bookmarks.isEmpty then [] else str "Bookmarks: " ++ joinComma (e.bookmarks.map showInt) ++ nl) ++
  kvLine "DistanceSpacing" (showF e.distanceSpacing) ++
  kvLine "BeatDivisor" (showInt e.beatDivisor) ++
  kvLine "GridSize" (showInt e.gridSize) ++
  kvLine "TimelineZoom" (showF e.timelineZoom)

/-- `Beatmap::encode_metadata` (positive ids are written last). -/
def encodeMetadata (m : Beatmap F P) : Str :=
  let d := m.metadata
  str "[Metadata]\n" ++
  kvLine "Title" d.title ++
  (if d.titleUnicode.isEmpty then [] else kvLine "TitleUnicode" d.titleUnicode) ++
  kvLine "Artist" d.artist ++
  (if d.artistUnicode.isEmpty then [] else kvLine "ArtistUnicode" d.artistUnicode) ++
  kvLine "Creator" d.creator ++
  kvLine "Version" d.version ++
  (if d.source.isEmpty then [] else kvLine "Source" d.source) ++
  (if d.tags.isEmpty then [] else kvLine "Tags" d.tags) ++
  (if d.beatmapId > 0 then kvLine "BeatmapID" (showInt d.beatmapId) else []) ++
  (if d.beatmapSetId > 0 then kvLine "BeatmapSetID" (showInt d.beatmapSetId) else [])

/-- `Beatmap::encode_difficulty`. -/
def encodeDifficulty (m : Beatmap F P) : Str :=
  let d := m.difficulty
  str "[Difficulty]\n" ++
  kvLine "HPDrainRate" (showP d.hpDrainRate) ++
  kvLine "CircleSize" (showP d.circleSize) ++
  kvLine "OverallDifficulty" (showP d.overallDifficulty) ++
  kvLine "ApproachRate" (showP d.approachRate) ++
  kvLine "SliderMultiplier" (showF d.sliderMultiplier) ++
  kvLine "SliderTickRate" (showF d.sliderTickRate)

/-- `Beatmap::encode_events`. -/
def encodeEvents (m : Beatmap F P) : Str :=
  str "[Events]\n" ++
  (if m.events.backgroundFile.isEmpty then [] else str "0,0,\"" ++ m.events.backgroundFile ++ str "\",0,0\n") ++
  m.events.breaks.flatMap (fun b => str "2," ++ showF b.startTime ++ [','] ++ showF b.endTime ++ nl)

/-- `Beatmap::encode_colors`. -/
def colorFields (c : Color) : Str :=
  showNat c.r ++ [','] ++ showNat c.g ++ [','] ++ showNat c.b ++ [','] ++ showNat c.a

def encodeComboColors : List Color → Nat → Str
  | [], _ => []
  | c :: rest, i => str "Combo" ++ showNat i ++ str ": " ++ colorFields c ++ nl ++ encodeComboColors rest (i + 1)

def encodeColors (m : Beatmap F P) : Str :=
  str "[Colours]\n" ++ encodeComboColors m.colors.customComboColors 1 ++
  m.colors.customColors.flatMap (fun c => c.name ++ str ": " ++ colorFields c.color ++ nl)

/-! ### hit objects -/

/-- `HitObjectType::from(&HitObject)` (as the `i32` that is printed); `combo_offset << 4` wraps like `i32::shl`. -/
def wrapI32 (n : Int) : Int :=
  let r := n % 4294967296
  if r ≥ 2147483648 then r - 4294967296 else r

def orBits (a b : Int) : Int :=
  -- bitwise or of two i32 values, via their unsigned 32-bit forms
  let ua := (a % 4294967296).toNat
  let ub := (b % 4294967296).toNat
  wrapI32 ((ua ||| ub : Nat) : Int)

def objectTypeOf (h : HitObject F P) : Int :=
  match h.kind with
  | .circle c => orBits (orBits (wrapI32 (c.comboOffset * 16)) (if c.newCombo then 4 else 0)) 1
  | .slider s => orBits (orBits (wrapI32 (s.comboOffset * 16)) (if s.newCombo then 4 else 0)) 2
  | .spinner s => orBits (if s.newCombo then 4 else 0) 8
  | .hold _ => 128

/-- `HitSoundType::from(&[HitSampleInfo])`. -/
def soundTypeOf (samples : List HitSampleInfo) : Nat :=
  samples.foldl (fun acc s =>
    match s.name with
    | .default .whistle => acc ||| 2
    | .default .finish => acc ||| 4
    | .default .clap => acc ||| 8
    | _ => acc) 0

/-- `get_sample_bank`. -/
def getSampleBank (samples : List HitSampleInfo) (banksOnly : Bool) (mode : GameMode) : Str :=
  let normalBank : SampleBank :=
    match samples.find? (fun s => s.name == .default .normal) with
    | some s => s.bank | none => SampleBank.none
  let addBank : SampleBank :=
    match samples.find? (fun s => match s.name with | .default .normal => false | .file _ => false | _ => true) with
    | some s => s.bank | none => SampleBank.none
  let head := showNat normalBank.idx ++ [':'] ++ showNat addBank.idx
  if banksOnly then head else
  let custom0 : Int :=
    match samples.find? (fun s => match s.name with | .default _ => true | _ => false) with
    | some s => s.customSampleBank | none => 0
  let fileName : Option Str :=
    match samples.find? (fun s => match s.name with | .file f => !f.isEmpty | _ => false) with
    | some s => (match s.name with | .file f => some f | _ => none)
    | none => none
  let volume0 : Int := match samples.head? with | some s => s.volume | none => 100
  let custom := if mode != GameMode.mania then 0 else custom0
  let volume := if mode != GameMode.mania then 0 else volume0
  head ++ [':'] ++ showInt custom ++ [':'] ++ showInt volume ++ [':'] ++ (fileName.getD [])

def pathTypeLetter (t : PathType) : Str :=
  match t.kind with
  | .bspline => (match t.degree with | some d => 'B' :: showInt d | none => ['B'])
  | .catmull => ['C']
  | .perfectCurve => ['P']
  | .linear => ['L']

/-- the control-point part of `add_path_data`. -/
def pathPointsLoop (pos : Pos P) (cps : List (PathControlPoint P)) (n : Nat) :
    Nat → Option PathType → List (PathControlPoint P) → Str
  | _, _, [] => []
  | i, lastType, point :: rest =>
    let sep : Char := if i == n - 1 then ',' else '|'
    let coords := showP (pos.x + point.pos.x) ++ [':'] ++ showP (pos.y + point.pos.y)
    let (typePart, lastType') : Str × Option PathType :=
      match point.pathType with
      | none => ([], lastType)
      | some pt =>
        -- the last control point of a segment (or of the path) is always written explicitly
        let endsSegment := match cps[i + 1]? with | some nxt => nxt.pathType.isSome | none => true
        let needs0 := (point.pathType != lastType) || (point.pathType == some PathType.perfect) || endsSegment
        let needs :=
          if i > 1 then
            match cps[i - 1]?, cps[i - 2]? with
            | some a, some b =>
              let p1 := pos + a.pos
              let p2 := pos + b.pos
              if (Scalar.toI32 p1.x == Scalar.toI32 p2.x) && (Scalar.toI32 p1.y == Scalar.toI32 p2.y) then true else needs0
            | _, _ => needs0
          else needs0
        if needs then (pathTypeLetter pt ++ [if n == 1 then ',' else '|'], some pt)
        else (coords ++ ['|'], lastType)
    let pointPart : Str := if i != 0 then coords ++ [sep] else []
    typePart ++ pointPart ++ pathPointsLoop pos cps n (i + 1) lastType' rest

def nodeSoundsPart (s : HitObjectSlider F P) : Str :=
  let spans := (s.repeatCount + 1).toNat
  (List.range (spans + 1)).flatMap fun i =>
    let v : Nat := match s.nodeSamples[i]? with | some ns => soundTypeOf ns | none => 0
    showNat v ++ [if i == spans then ',' else '|']

def nodeBanksPart (s : HitObjectSlider F P) (mode : GameMode) : Str :=
  let spans := (s.repeatCount + 1).toNat
  (List.range (spans + 1)).flatMap fun i =>
    (match s.nodeSamples[i]? with | some ns => getSampleBank ns true mode | none => str "0:0") ++
      [if i == spans then ',' else '|']

/-- natural length of a slider's curve (the Rust reads the cached curve; by C18 the cache equals recomputation). -/
def curveDist (s : HitObjectSlider F P) : Outcome F := do
  let (c, _) ← Curve.new curveFuel s.path.mode s.path.controlPoints s.path.expectedDist emptyBuffers
  pure (Curve.dist c.lengths)

/-- `add_path_data`. -/
def addPathData (s : HitObjectSlider F P) (pos : Pos P) (mode : GameMode) : Outcome Str := do
  let cps := s.path.controlPoints
  let pts := pathPointsLoop pos cps cps.length 0 none cps
  let dist ← match s.path.expectedDist with
    | some d => pure d
    | none => curveDist s
  pure (pts ++ showInt (s.repeatCount + 1) ++ [','] ++ showF dist ++ [','] ++ nodeSoundsPart s ++ nodeBanksPart s mode)

def encodeObject (mode : GameMode) (h : HitObject F P) : Outcome Str := do
  let pos : Pos P := match h.kind with
    | .circle c => c.pos | .slider s => s.pos | .spinner s => s.pos | .hold s => ⟨s.posX, 192⟩
  let head := showP pos.x ++ [','] ++ showP pos.y ++ [','] ++ showF h.startTime ++ [','] ++
    showInt (objectTypeOf h) ++ [','] ++ showNat (soundTypeOf h.samples) ++ [',']
  let mid ← match h.kind with
    | .circle _ => pure []
    | .slider s => addPathData s pos mode
    | .spinner s => pure (showF (h.startTime + s.duration) ++ [','])
    | .hold s => pure (showF (h.startTime + s.duration) ++ [':'])
  pure (head ++ mid ++ getSampleBank h.samples false mode ++ nl)

def encodeObjects (mode : GameMode) : List (HitObject F P) → Outcome Str
  | [] => pure []
  | h :: rest => do
    let a ← encodeObject mode h
    let b ← encodeObjects mode rest
    pure (a ++ b)

def encodeHitObjects (m : Beatmap F P) : Outcome Str := do
  let body ← encodeObjects m.general.mode m.hitObjects
  pure (str "[HitObjects]\n" ++ body)

/-! ### timing points -/

/-- `collect_sample`. -/
def collectSample (samples : List HitSampleInfo) (time : F) : List (SamplePoint F) :=
  match samples with
  | [] => []
  | s :: rest =>
    let volume := rest.foldl (fun acc x => if x.volume > acc then x.volume else acc) s.volume
    let custom := rest.foldl (fun acc x => if x.customSampleBank > acc then x.customSampleBank else acc) s.customSampleBank
    [{ time := time, sampleBank := SampleBank.normal, sampleVolume := volume, customSampleBank := custom }]

def eventsFuel : Nat := 10000000

/-- the iterator built by `slider_events` / `juicestream_events`, collected; the shared tick buffer is threaded. -/
def sliderEventList (startTime velocity tickDist dist duration : F) (spanCount : Int)
    (buf : List (SliderEvents.SliderEvent F)) :
    Outcome (List (SliderEvents.SliderEvent F) × List (SliderEvents.SliderEvent F)) :=
  let spanDuration := duration / (Scalar.ofInt spanCount : F)
  match SliderEvents.runUse eventsFuel
      { startTime := startTime, spanDuration := spanDuration, velocity := velocity, tickDist := tickDist,
        totalDist := dist, spanCount := spanCount, take := none } buf with
  | (.events evs, buf') => .ok (evs, buf')
  | (.panicked, _) => .error .panic
  | (.fuelExhausted, _) => .error .fuel

def infinity : F := (1 : F) / (0 : F)

/-- nested samples of one slider in osu! mode (`slider_events`). -/
def osuSliderSamples (m : Beatmap F P) (h : HitObject F P) (s : HitObjectSlider F P) (dist duration : F)
    (buf : List (SliderEvents.SliderEvent F)) :
    Outcome (List (SamplePoint F) × List (SliderEvents.SliderEvent F)) := do
  let cp := m.controlPoints
  let beatLen := ((cp.timingPointAt h.startTime).map (·.beatLen)).getD (1000 : F)
  let (sv, genTicks) : F × Bool := match cp.difficultyPointAt h.startTime with
    | some p => (p.sliderVelocity, p.generateTicks) | none => ((1 : F), true)
  let mult : F := if m.formatVersion < 8 then Scalar.recip sv else 1
  let scoringDist := s.velocity * beatLen
  let tickDist : F := if genTicks then scoringDist / m.difficulty.sliderTickRate * mult else infinity
  let (evs, buf') ← sliderEventList h.startTime s.velocity tickDist dist duration (s.repeatCount + 1) buf
  let pts := evs.flatMap fun ev =>
    match ev.kind with
    | .head => collectSample ((s.nodeSamples.head?).getD h.samples) ev.time
    | .repeatPt => collectSample ((s.nodeSamples[(ev.spanIdx + 1).toNat]?).getD h.samples) ev.time
    | .tail => collectSample ((s.nodeSamples[(s.repeatCount + 1).toNat]?).getD h.samples) ev.time
    | _ => []
  pure (pts, buf')

/-- nested samples of one slider in catch mode (`juicestream_events`). -/
def catchSliderSamples (m : Beatmap F P) (h : HitObject F P) (s : HitObjectSlider F P) (dist duration : F)
    (buf : List (SliderEvents.SliderEvent F)) :
    Outcome (List (SamplePoint F) × List (SliderEvents.SliderEvent F)) := do
  let cp := m.controlPoints
  let sv : F := ((cp.difficultyPointAt h.startTime).map (·.sliderVelocity)).getD (1 : F)
  let mult : F := if m.formatVersion < 8 then Scalar.recip sv else 1
  let factor : F := (Cvt.up (100 : P) : F) * m.difficulty.sliderMultiplier / m.difficulty.sliderTickRate
  let tickDist := factor * mult
  let (evs, buf') ← sliderEventList h.startTime s.velocity tickDist dist duration (s.repeatCount + 1) buf
  let nodes := evs.filter fun ev => match ev.kind with | .head | .repeatPt | .tail => true | _ => false
  let pts := (nodes.zipIdx).flatMap fun (ev, i) => collectSample ((s.nodeSamples[i]?).getD h.samples) ev.time
  pure (pts, buf')

/-- the per-object part of `collect_samples`. -/
def collectObject (m : Beatmap F P) (h : HitObject F P) (buf : List (SliderEvents.SliderEvent F)) :
    Outcome (List (SamplePoint F) × List (SliderEvents.SliderEvent F)) :=
  match h.kind with
  | .circle _ => pure (collectSample h.samples h.startTime, buf)
  | .spinner s => pure (collectSample h.samples (h.startTime + s.duration), buf)
  | .hold s => pure (collectSample h.samples (h.startTime + s.duration) ++ collectSample h.samples h.startTime, buf)
  | .slider s => do
    let dist ← curveDist s
    let duration : F := (Scalar.ofInt (s.repeatCount + 1) : F) * dist / s.velocity
    let own := collectSample h.samples (h.startTime + duration)
    match m.general.mode with
    | .osu => do
      let (pts, buf') ← osuSliderSamples m h s dist duration buf
      pure (own ++ pts, buf')
    | .taiko => pure (own, buf)
    | .catch => do
      let (pts, buf') ← catchSliderSamples m h s dist duration buf
      pure (own ++ pts, buf')
    | .mania => pure (own ++ collectSample h.samples h.startTime, buf)

def collectAll (m : Beatmap F P) : List (HitObject F P) → List (SliderEvents.SliderEvent F) →
    Outcome (List (SamplePoint F))
  | [], _ => pure []
  | h :: rest, buf => do
    let (a, buf') ← collectObject m h buf
    let b ← collectAll m rest buf'
    pure (a ++ b)

/-- the tail of `collect_samples`: stable sort by time, add the first, then every non-redundant one. -/
def addCollected (cp : ControlPoints F) : List (SamplePoint F) → ControlPoints F
  | [] => cp
  | first :: rest =>
    let cp := cp.addSample first
    (rest.foldl (fun (acc : ControlPoints F × SamplePoint F) s =>
      if !s.isRedundant acc.2 then (acc.1.addSample s, s) else acc) (cp, first)).1

def collectSamples (m : Beatmap F P) : Outcome (ControlPoints F) := do
  let collected ← collectAll m m.hitObjects []
  let sorted := collected.mergeSort (fun a b => decide (totalKey a.time ≤ totalKey b.time))
  pure (addCollected m.controlPoints sorted)

/-- `ControlPointProperties`. -/
structure Props (F : Type) where
  sliderVelocity : F
  timingSignature : Nat
  sampleBank : Nat
  customSampleBank : Int
  sampleVolume : Int
  effectFlags : Nat

def Props.default : Props F :=
  { sliderVelocity := 0, timingSignature := 0, sampleBank := 0, customSampleBank := 0, sampleVolume := 0, effectFlags := 0 }

/-- `ControlPointProperties::new`. -/
def Props.new (time : F) (cp : ControlPoints F) (last : Props F) (updateSampleBank : Bool) (mode : GameMode) : Props F :=
  let timing := cp.timingPointAt time
  let difficulty := cp.difficultyPointAt time
  let sample := (cp.samplePointAt time).getD SamplePoint.default
  let effect := cp.effectPointAt time
  let tmp := sample.apply (HitSampleInfo.new (.default .normal) none 0 0)
  let kiai := (effect.map (·.kiai)).getD false
  let omitBar := (timing.map (·.omitFirstBarLine)).getD false
  { sliderVelocity :=
      -- taiko / mania: the field carries the scroll speed
      (match mode with
       | .taiko | .mania => (effect.map (·.scrollSpeed)).getD (1 : F)
       | _ => (difficulty.map (·.sliderVelocity)).getD (1 : F))
    timingSignature := ((timing.map (·.timeSignature)).getD TimeSignature.simpleQuadruple).numerator
    sampleBank := if updateSampleBank then tmp.bank.idx else last.sampleBank
    customSampleBank := if tmp.customSampleBank ≥ 0 then tmp.customSampleBank else last.customSampleBank
    sampleVolume := tmp.volume
    effectFlags := (if kiai then 1 else 0) ||| (if omitBar then 8 else 0) }

/-- `ControlPointProperties::is_redundant`. -/
def Props.isRedundant (a b : Props F) : Bool :=
  lt (Scalar.abs (a.sliderVelocity - b.sliderVelocity)) (Scalar.eps : F) &&
  a.timingSignature == b.timingSignature && a.sampleBank == b.sampleBank &&
  a.customSampleBank == b.customSampleBank && a.sampleVolume == b.sampleVolume && a.effectFlags == b.effectFlags

def propsTail (p : Props F) (isTiming : Bool) : Str :=
  showNat p.timingSignature ++ [','] ++ showNat p.sampleBank ++ [','] ++ showInt p.customSampleBank ++ [','] ++
  showInt p.sampleVolume ++ [','] ++ (if isTiming then ['1'] else ['0']) ++ [','] ++ showNat p.effectFlags ++ nl

/-- a `ControlPointGroup`. -/
structure Group (F : Type) where
  time : F
  timing : Option (TimingPoint F)

/-- insert a group for `time` unless one with that key exists (`binary_search_by` + `insert`). -/
def insertGroup (groups : List (Group F)) (time : F) : List (Group F) :=
  match searchKey (fun g : Group F => totalKey g.time) (totalKey time) groups with
  | .found _ => groups
  | .notFound i => groups.insertIdx i { time := time, timing := none }

def encodeGroups (mode : GameMode) (cp : ControlPoints F) : List (Group F) → Props F → Str
  | [], _ => []
  | g :: rest, last =>
    let props := Props.new g.time cp last g.timing.isSome mode
    let (timingLine, last1) : Str × Props F :=
      match g.timing with
      | some t => (showF t.time ++ [','] ++ showF t.beatLen ++ [','] ++ propsTail props true,
                   { props with sliderVelocity := 1 })
      | none => ([], last)
    if props.isRedundant last1 then timingLine ++ encodeGroups mode cp rest last1
    else
      timingLine ++ showF g.time ++ [','] ++ showF ((-100 : F) / props.sliderVelocity) ++ [','] ++ propsTail props false ++
        encodeGroups mode cp rest props

/-- `Beatmap::encode_timing_points`. -/
def encodeTimingPoints (m : Beatmap F P) : Outcome Str := do
  let cp ← collectSamples m
  let groups0 : List (Group F) := cp.timingPoints.map fun t => { time := t.time, timing := some t }
  let groups0 := groups0.mergeSort (fun a b => decide (totalKey a.time ≤ totalKey b.time))
  let times := cp.difficultyPoints.map (·.time) ++ cp.effectPoints.map (·.time) ++ cp.samplePoints.map (·.time)
  let groups := times.foldl insertGroup groups0
  pure (str "[TimingPoints]\n" ++ encodeGroups m.general.mode cp groups Props.default)

/-- `Beatmap::encode` (the bytes written, as text). -/
def encode (m : Beatmap F P) : Outcome Str := do
  let timing ← encodeTimingPoints m
  let objects ← encodeHitObjects m
  pure (str "osu file format v" ++ showInt m.formatVersion ++ nl ++
    nl ++ encodeGeneral m ++ nl ++ encodeEditor m ++ nl ++ encodeMetadata m ++ nl ++ encodeDifficulty m ++
    nl ++ encodeEvents m ++ nl ++ timing ++ nl ++ encodeColors m ++ nl ++ objects)

end Encode
end Rosu
