/-
  Model/Sections.lean — the record sections other than [General]:
  src/section/{editor,metadata,difficulty}.rs, src/section/events/decode.rs, src/section/colors/*.rs.

  Every parser is `state → line → state × ok`. `ok = false` is Rust's `Err(_)`; the returned state
  is what the `&mut` state holds when the function returns (so a mutation made before a failing `?`
  would be visible here).
-/
import RosuModel.Model.KeyValue
import RosuModel.Model.NumParse
import RosuModel.Model.Basic
import RosuModel.Model.Utf
namespace Rosu
open Scalar

variable {F P : Type} [Scalar F] [Scalar P]

/-! ### [Editor] -/

structure Editor (F : Type) where
  bookmarks : List Int
  distanceSpacing : F
  beatDivisor : Int
  gridSize : Int
  timelineZoom : F

def Editor.default : Editor F :=
  { bookmarks := [], distanceSpacing := 1, beatDivisor := 4, gridSize := 0, timelineZoom := 1 }

inductive EditorKey | bookmarks | distanceSpacing | beatDivisor | gridSize | timelineZoom
  deriving DecidableEq, Repr

def EditorKey.parse (k : Str) : Option EditorKey :=
  if k == str "Bookmarks" then some .bookmarks
  else if k == str "DistanceSpacing" then some .distanceSpacing
  else if k == str "BeatDivisor" then some .beatDivisor
  else if k == str "GridSize" then some .gridSize
  else if k == str "TimelineZoom" then some .timelineZoom
  else none

/-- `Editor::parse_editor`. -/
def parseEditor (st : Editor F) (line : Str) : Editor F × Bool :=
  let (k, value) := kvSplit (trimComment line)
  match EditorKey.parse k with
  | none => (st, true)
  | some .bookmarks =>
    ({ st with bookmarks := (splitOn ',' value).filterMap i32FromStr }, true)
  | some .distanceSpacing =>
    match (floatParse value : Option F) with
    | some v => ({ st with distanceSpacing := v }, true)
    | none => (st, false)
  | some .beatDivisor =>
    match i32Parse value with
    | some v => ({ st with beatDivisor := v }, true)
    | none => (st, false)
  | some .gridSize =>
    match i32Parse value with
    | some v => ({ st with gridSize := v }, true)
    | none => (st, false)
  | some .timelineZoom =>
    match (floatParse value : Option F) with
    | some v => ({ st with timelineZoom := v }, true)
    | none => (st, false)

/-! ### [Metadata] -/

structure Metadata where
  title : Str
  titleUnicode : Str
  artist : Str
  artistUnicode : Str
  creator : Str
  version : Str
  source : Str
  tags : Str
  beatmapId : Int
  beatmapSetId : Int
  deriving DecidableEq, Repr

def Metadata.default : Metadata :=
  { title := [], titleUnicode := [], artist := [], artistUnicode := [], creator := [], version := [],
    source := [], tags := [], beatmapId := -1, beatmapSetId := 0 }

inductive MetadataKey
  | title | titleUnicode | artist | artistUnicode | creator | version | source | tags
  | beatmapId | beatmapSetId
  deriving DecidableEq, Repr

def MetadataKey.parse (k : Str) : Option MetadataKey :=
  if k == str "Title" then some .title
  else if k == str "TitleUnicode" then some .titleUnicode
  else if k == str "Artist" then some .artist
  else if k == str "ArtistUnicode" then some .artistUnicode
  else if k == str "Creator" then some .creator
  else if k == str "Version" then some .version
  else if k == str "Source" then some .source
  else if k == str "Tags" then some .tags
  else if k == str "BeatmapID" then some .beatmapId
  else if k == str "BeatmapSetID" then some .beatmapSetId
  else none

/-- `Metadata::parse_metadata` (no comment trimming in this section). -/
def parseMetadata (st : Metadata) (line : Str) : Metadata × Bool :=
  let (k, value) := kvSplit line
  match MetadataKey.parse k with
  | none => (st, true)
  | some .title => ({ st with title := value }, true)
  | some .titleUnicode => ({ st with titleUnicode := value }, true)
  | some .artist => ({ st with artist := value }, true)
  | some .artistUnicode => ({ st with artistUnicode := value }, true)
  | some .creator => ({ st with creator := value }, true)
  | some .version => ({ st with version := value }, true)
  | some .source => ({ st with source := value }, true)
  | some .tags => ({ st with tags := value }, true)
  | some .beatmapId =>
    match i32Parse value with
    | some v => ({ st with beatmapId := v }, true)
    | none => (st, false)
  | some .beatmapSetId =>
    match i32Parse value with
    | some v => ({ st with beatmapSetId := v }, true)
    | none => (st, false)

/-! ### [Difficulty] -/

structure Difficulty (F P : Type) where
  hpDrainRate : P
  circleSize : P
  overallDifficulty : P
  approachRate : P
  sliderMultiplier : F
  sliderTickRate : F

structure DifficultyState (F P : Type) where
  hasApproachRate : Bool
  difficulty : Difficulty F P

def Difficulty.default : Difficulty F P :=
  { hpDrainRate := 5, circleSize := 5, overallDifficulty := 5, approachRate := 5,
    sliderMultiplier := 1.4, sliderTickRate := 1 }

def DifficultyState.create : DifficultyState F P := { hasApproachRate := false, difficulty := Difficulty.default }

inductive DifficultyKey
  | hpDrainRate | circleSize | overallDifficulty | approachRate | sliderMultiplier | sliderTickRate
  deriving DecidableEq, Repr

def DifficultyKey.parse (k : Str) : Option DifficultyKey :=
  if k == str "HPDrainRate" then some .hpDrainRate
  else if k == str "CircleSize" then some .circleSize
  else if k == str "OverallDifficulty" then some .overallDifficulty
  else if k == str "ApproachRate" then some .approachRate
  else if k == str "SliderMultiplier" then some .sliderMultiplier
  else if k == str "SliderTickRate" then some .sliderTickRate
  else none

/-- `Difficulty::parse_difficulty`. -/
def parseDifficulty (st : DifficultyState F P) (line : Str) : DifficultyState F P × Bool :=
  let (k, value) := kvSplit (trimComment line)
  match DifficultyKey.parse k with
  | none => (st, true)
  | some .hpDrainRate =>
    match (floatParse value : Option P) with
    | some v => ({ st with difficulty := { st.difficulty with hpDrainRate := v } }, true)
    | none => (st, false)
  | some .circleSize =>
    match (floatParse value : Option P) with
    | some v => ({ st with difficulty := { st.difficulty with circleSize := v } }, true)
    | none => (st, false)
  | some .overallDifficulty =>
    match (floatParse value : Option P) with
    | some v =>
      let d := { st.difficulty with overallDifficulty := v }
      let d := if !st.hasApproachRate then { d with approachRate := v } else d
      ({ st with difficulty := d }, true)
    | none => (st, false)
  | some .approachRate =>
    match (floatParse value : Option P) with
    | some v => ({ hasApproachRate := true, difficulty := { st.difficulty with approachRate := v } }, true)
    | none => (st, false)
  | some .sliderMultiplier =>
    match (floatParse value : Option F) with
    | some v => ({ st with difficulty := { st.difficulty with sliderMultiplier := clamp v 0.4 3.6 } }, true)
    | none => (st, false)
  | some .sliderTickRate =>
    match (floatParse value : Option F) with
    | some v => ({ st with difficulty := { st.difficulty with sliderTickRate := clamp v 0.5 8 } }, true)
    | none => (st, false)

/-! ### [Events] -/

structure BreakPeriod (F : Type) where
  startTime : F
  endTime : F

structure Events (F : Type) where
  backgroundFile : Str
  breaks : List (BreakPeriod F)

def Events.default : Events F := { backgroundFile := [], breaks := [] }

inductive EventType | background | video | break_ | color | sprite | sample | animation
  deriving DecidableEq, Repr

/-- `<EventType as FromStr>::from_str`. -/
def EventType.parse (s : Str) : Option EventType :=
  if s == str "0" || s == str "Background" then some .background
  else if s == str "1" || s == str "Video" then some .video
  else if s == str "2" || s == str "Break" then some .break_
  else if s == str "3" || s == str "Colour" then some .color
  else if s == str "4" || s == str "Sprite" then some .sprite
  else if s == str "5" || s == str "Sample" then some .sample
  else if s == str "6" || s == str "Animation" then some .animation
  else none

def asciiLowerByte (b : UInt8) : UInt8 := if 0x41 ≤ b && b ≤ 0x5A then b + 0x20 else b

def videoExtensions : List (List UInt8) :=
  [str "mp4", str "mov", str "avi", str "flv", str "mpg", str "wmv", str "m4v"].map utf8Encode

/-- the `if let [.., a, b, c] = filename.as_bytes()` test of the Video arm: `some true` = has a
video extension, `some false` = at least three bytes and another extension, `none` = shorter. -/
def hasVideoExtension (filename : Str) : Option Bool :=
  let bs := utf8Encode filename
  if bs.length < 3 then none
  else some (videoExtensions.contains ((bs.drop (bs.length - 3)).map asciiLowerByte))

/-- `Events::parse_events`. -/
def parseEvents (st : Events F) (line : Str) : Events F × Bool :=
  match splitOn ',' (trimComment line) with
  | eventType :: startTime :: eventParams :: rest =>
    match EventType.parse eventType with
    | none => (st, false)
    | some .sprite =>
      if st.backgroundFile.isEmpty then
        match rest with
        | f :: _ => ({ st with backgroundFile := cleanFilename f }, true)
        | [] => (st, false)
      else (st, true)
    | some .video =>
      let filename := cleanFilename eventParams
      match hasVideoExtension filename with
      | some false => ({ st with backgroundFile := filename }, true)
      | _ => (st, true)
    | some .background => ({ st with backgroundFile := cleanFilename eventParams }, true)
    | some .break_ =>
      match (floatParse startTime : Option F) with
      | none => (st, false)
      | some s =>
        match (floatParse eventParams : Option F) with
        | none => (st, false)
        | some e => ({ st with breaks := st.breaks ++ [{ startTime := s, endTime := Scalar.max s e }] }, true)
    | some _ => (st, true)
  | _ => (st, false)

/-! ### [Colours] -/

structure Color where
  r : Nat
  g : Nat
  b : Nat
  a : Nat
  deriving DecidableEq, Repr

structure CustomColor where
  name : Str
  color : Color
  deriving DecidableEq, Repr

structure Colors where
  customComboColors : List Color
  customColors : List CustomColor
  deriving DecidableEq, Repr

def Colors.default : Colors := { customComboColors := [], customColors := [] }

/-- `<Color as FromStr>::from_str`: three or four comma fields, each trimmed; alpha ignored. -/
def Color.parse (s : Str) : Option Color :=
  match (splitOn ',' s).map trim with
  | [r, g, b] | [r, g, b, _] =>
    match u8FromStr r, u8FromStr g, u8FromStr b with
    | some r, some g, some b => some ⟨r, g, b, 255⟩
    | _, _, _ => none
  | _ => none

def setCustomColor (name : Str) (c : Color) : List CustomColor → List CustomColor
  | [] => [⟨name, c⟩]
  | x :: xs => if x.name == name then { x with color := c } :: xs else x :: setCustomColor name c xs

/-- `Colors::parse_colors`. -/
def parseColors (st : Colors) (line : Str) : Colors × Bool :=
  let (k, value) := kvSplit (trimComment line)
  match Color.parse value with
  | none => (st, false)
  | some c =>
    if startsWith k (str "Combo") then ({ st with customComboColors := st.customComboColors ++ [c] }, true)
    else ({ st with customColors := setCustomColor k c st.customColors }, true)

end Rosu
