/-
  Model/Framing.lean — `src/decode.rs` (`DecodeBeatmap::decode`, `parse_version`,
  `parse_first_section`, `parse_section`), `src/format_version.rs` and
  `Section::try_from_line`.
-/
import RosuModel.Model.Num
import RosuModel.Model.Reader
namespace Rosu

inductive Section
  | general | editor | metadata | difficulty | events | timingPoints
  | colors | hitObjects | variables | catchTheBeat | mania
  deriving DecidableEq, Repr, Inhabited

def Section.idx : Section → Nat
  | .general => 0 | .editor => 1 | .metadata => 2 | .difficulty => 3 | .events => 4
  | .timingPoints => 5 | .colors => 6 | .hitObjects => 7 | .variables => 8
  | .catchTheBeat => 9 | .mania => 10

def Section.ofName (n : Str) : Option Section :=
  if n == str "General" then some .general
  else if n == str "Editor" then some .editor
  else if n == str "Metadata" then some .metadata
  else if n == str "Difficulty" then some .difficulty
  else if n == str "Events" then some .events
  else if n == str "TimingPoints" then some .timingPoints
  else if n == str "Colours" then some .colors
  else if n == str "HitObjects" then some .hitObjects
  else if n == str "Variables" then some .variables
  else if n == str "CatchTheBeat" then some .catchTheBeat
  else if n == str "Mania" then some .mania
  else none

/-- `Section::try_from_line`. -/
def Section.tryFromLine (l : Str) : Option Section :=
  match l with
  | [] => none
  | c :: rest =>
    if c == '[' then
      match stripSuffixChar ']' rest with
      | some name => Section.ofName name
      | none => none
    else none

def latestVersion : Int := 14
def versionPrefix : Str := str "osu file format v"

inductive VersionFlow
  | cont                 -- `ControlFlow::Continue(())`
  | found (v : Int)      -- `Break(Ok(v))`
  | bad                  -- `Break(Err(_))`
  deriving DecidableEq, Repr

/-- `format_version::try_version_from_line`. -/
def tryVersionFromLine (l : Str) : VersionFlow :=
  if !startsWith l versionPrefix then
    if l.isEmpty then .cont else .bad
  else
    match i32Parse (afterLast 'v' l) with
    | some v => .found v
    | none => .bad

/-- `DecodeBeatmap::should_skip_line`. -/
def shouldSkipLine (l : Str) : Bool :=
  l.isEmpty || startsWith (trimStart l) (str "//")

/-- What a `DecodeBeatmap` implementation contributes: state creation and, per
section, the effect of one line on the state (the `Result` is discarded by the
driver, so only the state after the call matters). -/
structure LineDecoder (σ : Type) where
  create : Int → σ
  step : Section → σ → Str → σ

/-- `parse_version`: (version, use_curr_line, current line, remaining lines). -/
def parseVersion : List Str → Option Int × Bool × Str × List Str
  | [] => (none, false, [], [])
  | l :: rest =>
    match tryVersionFromLine l with
    | .cont => parseVersion rest
    | .found v => (some v, false, l, rest)
    | .bad => (none, true, l, rest)

/-- the `loop` of `parse_first_section`. -/
def findFirstSection : List Str → Option Section × List Str
  | [] => (none, [])
  | l :: rest =>
    match Section.tryFromLine l with
    | some s => (some s, rest)
    | none => findFirstSection rest

/-- `parse_first_section`. -/
def parseFirstSection (useCurr : Bool) (curr : Str) (rest : List Str) : Option Section × List Str :=
  if useCurr then
    match Section.tryFromLine curr with
    | some s => (some s, rest)
    | none => findFirstSection rest
  else findFirstSection rest

/-- `parse_section`: feeds lines to `f` until a header (→ `some next`) or end of input. -/
def parseSection {σ : Type} (f : σ → Str → σ) : σ → List Str → σ × Option Section × List Str
  | st, [] => (st, none, [])
  | st, l :: rest =>
    if shouldSkipLine l then parseSection f st rest
    else
      match Section.tryFromLine l with
      | some next => (st, some next, rest)
      | none => parseSection f (f st l) rest

/-- the outer `loop` of `decode`; `fuel` bounds the number of sections entered. -/
def sectionLoop {σ : Type} (D : LineDecoder σ) : Nat → Section → σ → List Str → σ
  | 0, _, st, _ => st
  | fuel + 1, sec, st, ls =>
    match parseSection (D.step sec) st ls with
    | (st', some next, rest) => sectionLoop D fuel next st' rest
    | (st', none, _) => st'

/-- `DecodeBeatmap::decode` on the list of lines the reader yields (state before `.into()`). -/
def frame {σ : Type} (D : LineDecoder σ) (ls : List Str) : σ :=
  match parseVersion ls with
  | (version, useCurr, curr, rest) =>
    let st := D.create (version.getD latestVersion)
    match parseFirstSection useCurr curr rest with
    | (none, _) => st
    | (some sec, rest') => sectionLoop D (rest'.length + 1) sec st rest'

/-- `DecodeBeatmap::decode` over a delivery schedule. -/
def decodeSched {σ : Type} (D : LineDecoder σ) (s : Sched) : Except IoKind σ :=
  match readBom s with
  | (.error k, _) => .error k
  | (.ok (enc, pfx), s1) =>
    match readAll enc (pushRest pfx s1) with
    | (_, some k) => .error k
    | (ls, none) => .ok (frame D ls)

/-- `from_bytes`. -/
def decodeBytes {σ : Type} (D : LineDecoder σ) (bs : List UInt8) : Except IoKind σ :=
  decodeSched D (Sched.ofBytes bs)

/-- the recording decoder used by the correspondence check of C05. -/
structure Rec where
  version : Int
  calls : List (Section × Str)   -- most recent first
  deriving Repr

def recorder : LineDecoder Rec where
  create v := { version := v, calls := [] }
  step sec st l := { st with calls := (sec, l) :: st.calls }

end Rosu
