/-
  Model/Text.lean — Rust `str` operations used by rosu-map, on `List Char`.
  Core Lean only (the driver links this file).
-/
namespace Rosu

abbrev Str := List Char

/-- Rust `char::is_whitespace` (Unicode `White_Space`). -/
def isWs (c : Char) : Bool :=
  let n := c.toNat
  (0x09 ≤ n && n ≤ 0x0D) || n == 0x20 || n == 0x85 || n == 0xA0 || n == 0x1680 ||
  (0x2000 ≤ n && n ≤ 0x200A) || n == 0x2028 || n == 0x2029 || n == 0x202F ||
  n == 0x205F || n == 0x3000

/-- `str::trim_start`. -/
def trimStart : Str → Str
  | [] => []
  | c :: cs => if isWs c then trimStart cs else c :: cs

/-- `str::trim_end`, written structurally: drop the suffix consisting of whitespace only. -/
def trimEnd : Str → Str
  | [] => []
  | c :: cs =>
    match trimEnd cs with
    | [] => if isWs c then [] else [c]
    | r => c :: r

/-- `str::trim`. -/
def trim (s : Str) : Str := trimEnd (trimStart s)

/-- `str::starts_with(&str)`. -/
def startsWith : Str → Str → Bool
  | _, [] => true
  | [], _ :: _ => false
  | c :: cs, p :: ps => c == p && startsWith cs ps

/-- `str::strip_prefix(&str)`. -/
def stripPrefix : Str → Str → Option Str
  | s, [] => some s
  | [], _ :: _ => none
  | c :: cs, p :: ps => if c == p then stripPrefix cs ps else none

/-- `str::strip_suffix(char)`. -/
def stripSuffixChar (c : Char) : Str → Option Str
  | [] => none
  | [x] => if x == c then some [] else none
  | x :: y :: rest => (stripSuffixChar c (y :: rest)).map (x :: ·)

/-- `str::split(char)`: always yields at least one piece. -/
def splitOn (sep : Char) : Str → List Str
  | [] => [[]]
  | c :: cs =>
    if c == sep then [] :: splitOn sep cs
    else
      match splitOn sep cs with
      | [] => [[c]]            -- unreachable, `splitOn` is never empty
      | p :: ps => (c :: p) :: ps

/-- text after the last occurrence of `sep` (`rsplit(sep).next()`), whole string if none. -/
def afterLast (sep : Char) (s : Str) : Str :=
  match (splitOn sep s).getLast? with
  | some p => p
  | none => s

/-- `str::find("//")` then slice: the prefix before the first `//`. -/
def beforeDoubleSlash : Str → Str
  | [] => []
  | [c] => [c]
  | a :: b :: rest =>
    if a == '/' && b == '/' then [] else a :: beforeDoubleSlash (b :: rest)

/-- `StrExt::trim_comment`. -/
def trimComment (s : Str) : Str := trimEnd (beforeDoubleSlash s)

/-- `str::replace(char, &str)` for single char → single char. -/
def replaceChar (a b : Char) (s : Str) : Str := s.map (fun c => if c == a then b else c)

/-- `str::replace("\\\\", "\\")`: non-overlapping left-to-right. -/
def collapseBackslashes : Str → Str
  | [] => []
  | [c] => [c]
  | a :: b :: rest =>
    if a == '\\' && b == '\\' then '\\' :: collapseBackslashes rest
    else a :: collapseBackslashes (b :: rest)

def dropWhileEq (c : Char) : Str → Str
  | [] => []
  | x :: xs => if x == c then dropWhileEq c xs else x :: xs

def dropEndEq (c : Char) : Str → Str
  | [] => []
  | x :: xs =>
    match dropEndEq c xs with
    | [] => if x == c then [] else [x]
    | r => x :: r

/-- `str::trim_matches('"')`. -/
def trimMatches (c : Char) (s : Str) : Str := dropEndEq c (dropWhileEq c s)

/-- `StrExt::to_standardized_path`. -/
def toStandardizedPath (s : Str) : Str := replaceChar '\\' '/' s

/-- `StrExt::clean_filename`. -/
def cleanFilename (s : Str) : Str :=
  toStandardizedPath (collapseBackslashes (trimMatches '"' s))

def str (s : String) : Str := s.toList

end Rosu
