/-
  Model/FloatBits.lean — the conversions Lean's runtime keeps opaque (`Float.toFloat32`, `Float32.toFloat`,
  `Float.toInt32`, `Float.ceil`, and their `Float32` twins), re-implemented on IEEE bit patterns with exact
  `Nat`/`Int` arithmetic so that they reduce in the kernel like `+ - * / sqrt <` do (Lean 4.33: `Float` is a
  structure over `Float.Model`). `Model/FloatInst.lean` builds the driver's `Scalar`/`Cvt` instances from these,
  so every operation of those instances except the libm functions (`sin cos acos atan2`) is a kernel-transparent
  definition. They are compared with Rust (`as f32`, `f64::from`, `as i32`, `ceil`) bit for bit by the `codec`
  differential (`castf64f32`, `castf32f64`, `castf64i32`, `castf32i32`, `ceilf64`, `ceilf32`) on every run, and
  with Lean's own hardware conversions by `cvtself`.
-/
import RosuModel.Model.FloatCodec
namespace Rosu

/-- the bit pattern (sign stripped) of the non-negative integer `n`, correctly rounded. -/
def natBits (f : FloatFmt) (n : Nat) : Nat := roundRat f n 1

/-- `f64::from(x: f32)` on bit patterns: exact. A NaN becomes the canonical NaN. -/
def upBits (b : Nat) : Nat :=
  let sign := b / 2 ^ 31 % 2
  let e := b / 2 ^ 23 % 2 ^ 8
  let m := b % 2 ^ 23
  let s64 := sign * 2 ^ 63
  if e = 255 then (if m = 0 then s64 + fmt64.infBits else fmt64.nanBits)
  else if e = 0 then
    if m = 0 then s64
    else
      -- subnormal: m · 2^-149 = 1.xxx · 2^(k-149), k = position of the leading bit (0..22)
      let k := m.log2
      s64 + (k + 874) * 2 ^ 52 + (m - 2 ^ k) * 2 ^ (52 - k)
  else s64 + (e + 896) * 2 ^ 52 + m * 2 ^ 29

/-- `x as f32` for `x: f64` on bit patterns: round to nearest, ties to even; overflow to infinity. -/
def downBits (b : Nat) : Nat :=
  let sign := b / 2 ^ 63 % 2
  let mag := b % 2 ^ 63
  let s32 := sign * 2 ^ 31
  if mag > fmt64.infBits then fmt32.nanBits
  else if mag = fmt64.infBits then s32 + fmt32.infBits
  else if mag = 0 then s32
  else
    let (m, e) := decompose fmt64 mag
    if e ≥ 0 then s32 + roundRat fmt32 (m * 2 ^ e.toNat) 1
    else s32 + roundRat fmt32 m (2 ^ (-e).toNat)

/-- `x as i32`: truncation toward zero, saturating, NaN ↦ 0. -/
def toI32Bits (f : FloatFmt) (b : Nat) : Int :=
  let neg := b / f.signBit % 2 = 1
  let mag := b % f.signBit
  if mag > f.infBits then 0
  else if mag = f.infBits then (if neg then -2147483648 else 2147483647)
  else if mag = 0 then 0
  else
    let (m, e) := decompose f mag
    -- |x| = m · 2^e ≥ 2^e: saturates as soon as e ≥ 31
    let t : Nat := if e ≥ 31 then 2147483648 else if e ≥ 0 then m * 2 ^ e.toNat else m / 2 ^ (-e).toNat
    if neg then (if t ≥ 2147483648 then -2147483648 else -(t : Int))
    else (if t ≥ 2147483648 then 2147483647 else (t : Int))

/-- `x.ceil()` on bit patterns. -/
def ceilBits (f : FloatFmt) (b : Nat) : Nat :=
  let neg := b / f.signBit % 2 = 1
  let mag := b % f.signBit
  if mag > f.infBits then f.nanBits
  else if mag = f.infBits ∨ mag = 0 then b
  else
    let (m, e) := decompose f mag
    if e ≥ 0 then b
    else
      let d := 2 ^ (-e).toNat
      let q := m / d
      let r := m % d
      if neg then f.signBit + natBits f q            -- ceil of a negative = −floor |x|  (−0 when |x| < 1)
      else natBits f (if r = 0 then q else q + 1)

end Rosu
