/-
  Model/DriverCmds.lean — chains the per-topic command modules of the driver.
  Each module answers the requests it knows (`none` = not mine).
-/
import RosuModel.Model.Cmds.Frame
import RosuModel.Model.Cmds.Codec
import RosuModel.Model.Cmds.Curve
namespace Rosu

def dispatch (toks : List String) : String :=
  ((none : Option String)
    |>.orElse (fun _ => dispatchFrame toks)
    |>.orElse (fun _ => dispatchCodec toks)
    |>.orElse (fun _ => dispatchCurve toks)
    ).getD "bad-request"

end Rosu
