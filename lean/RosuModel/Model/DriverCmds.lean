/-
  Model/DriverCmds.lean — chains the per-topic command modules of the driver.
  Each module answers the requests it knows (`none` = not mine).
-/
import RosuModel.Model.Cmds.Frame
import RosuModel.Model.Cmds.Reader
import RosuModel.Model.Cmds.Writer
import RosuModel.Model.Cmds.Codec
import RosuModel.Model.Cmds.Curve
import RosuModel.Model.Cmds.Timing
import RosuModel.Model.Cmds.Sections
import RosuModel.Model.Cmds.HitObj
import RosuModel.Model.Cmds.Events
import RosuModel.Model.Cmds.Whole
namespace Rosu

def dispatch (toks : List String) : String :=
  ((none : Option String)
    |>.orElse (fun _ => dispatchFrame toks)
    |>.orElse (fun _ => dispatchReader toks)
    |>.orElse (fun _ => dispatchWriter toks)
    |>.orElse (fun _ => dispatchCodec toks)
    |>.orElse (fun _ => dispatchCurve toks)
    |>.orElse (fun _ => dispatchTiming toks)
    |>.orElse (fun _ => dispatchSections toks)
    |>.orElse (fun _ => dispatchHitObj toks)
    |>.orElse (fun _ => dispatchEvents toks)
    |>.orElse (fun _ => dispatchWhole toks)
    ).getD "bad-request"

end Rosu
